package main

import (
	"fmt"
	"strings"
	"go/token"
	"go/types"

	"golang.org/x/tools/go/ssa"
)

type callCtx struct {
	fn      *ssa.Function
	recv    *Val
	args    []Val
	argVals []ssa.Value
	pos     token.Pos
	sig     *types.Signature
}

type specFn func(ex *Exec, fr *Frame, st *State, c *callCtx) Val

var specs map[string]specFn

func (c *callCtx) results() *types.Tuple {
	if c.fn != nil {
		return c.fn.Signature.Results()
	}
	return c.sig.Results()
}

func tup(vs ...Val) Val {
	var out Val
	var vars []*types.Var
	for _, v := range vs {
		out.L = append(out.L, v.L...)
		vars = append(vars, types.NewVar(token.NoPos, nil, "", v.T))
	}
	out.T = types.NewTuple(vars...)
	return out
}

func intVal(t string) Val   { return Val{T: types.Typ[types.Int], L: []string{t}} }
func boolV(t string) Val    { return Val{T: types.Typ[types.Bool], L: []string{t}} }
func errType() types.Type   { return types.Universe.Lookup("error").Type() }
func nilErr() Val           { return Val{T: errType(), L: []string{"0", "0"}} }
func bytesKey() string      { return "M|" + sortKey(sBV(8)) }
func bytesSort() string     { return sArr(sInt, sArr(bv64, sBV(8))) }

func (ex *Exec) byteMem(st *State) string { return ex.heapGet(st, bytesKey(), bytesSort()) }

func (ex *Exec) byteAt(st *State, s Val, i string) string {
	return sel(sel(ex.byteMem(st), s.L[0]), app("bvadd", s.L[1], i))
}

// freshErr returns a fresh non-nil error value.
func (ex *Exec) freshErr(st *State, hint string) Val {
	ref := ex.newRef(st, "err."+hint)
	return Val{T: errType(), L: []string{fmt.Sprint(ex.typeTag("T:*errors.errorString")), ref}}
}

// maybeErr returns an error that may or may not be nil.
func (ex *Exec) maybeErr(st *State, hint string) Val {
	isErr := ex.fresh("fails."+hint, sBool)
	e := ex.freshErr(st, hint)
	return Val{T: errType(), L: []string{ite(isErr, e.L[0], "0"), ite(isErr, e.L[1], "0")}}
}

func (ex *Exec) errIs(x, y Val) string {
	f := ex.declFun("errIs", []string{sInt, sInt, sInt, sInt}, sBool)
	// identical non-nil errors match
	return or(and(not(eq(x.L[0], "0")), eq(x.L[0], y.L[0]), eq(x.L[1], y.L[1])), and(not(eq(x.L[0], "0")), app(f, x.L[0], x.L[1], y.L[0], y.L[1])))
}

// ptrTarget resolves the i-th argument as an address.
func (ex *Exec) ptrTarget(fr *Frame, st *State, c *callCtx, i int) *target {
	if i < len(c.argVals) && c.argVals[i] != nil {
		return ex.resolve(fr, st, c.argVals[i])
	}
	T := c.args[i].T.Underlying().(*types.Pointer).Elem()
	return &target{kind: 1, ref: c.args[i].L[0], T: T}
}

// atomicLeaf loads/stores the value leaf of an atomic.X object addressed by arg 0.
func (ex *Exec) atomicGet(fr *Frame, st *State, c *callCtx) (Val, *target) {
	t := ex.ptrTarget(fr, st, c, 0)
	return ex.loadT(st, t), t
}

func init() {
	specs = map[string]specFn{}
	s := specs

	// ---- sync ----
	lock := func(held string) specFn {
		return func(ex *Exec, fr *Frame, st *State, c *callCtx) Val {
			t := ex.ptrTarget(fr, st, c, 0)
			ex.lockEvent(fr, st, c, t, held == "true")
			ex.storeT(st, t, Val{T: t.T, L: []string{held}})
			return Val{T: types.NewTuple()}
		}
	}
	s["(*sync.Mutex).Lock"] = lock("true")
	s["(*sync.Mutex).Unlock"] = lock("false")
	s["(*sync.RWMutex).Lock"] = lock("true")
	s["(*sync.RWMutex).Unlock"] = lock("false")
	s["(*sync.RWMutex).RLock"] = lock("true")
	s["(*sync.RWMutex).RUnlock"] = lock("false")
	nop := func(ex *Exec, fr *Frame, st *State, c *callCtx) Val {
		return ex.freshVal("nop", c.results())
	}
	for _, n := range []string{"(*sync.WaitGroup).Add", "(*sync.WaitGroup).Done", "(*sync.WaitGroup).Wait", "(*sync.Pool).Put",
		"(*sync.Once).Do", "time.Sleep", "(*time.Ticker).Stop", "(*time.Timer).Stop", "runtime.Gosched",
		"(*log/slog.Logger).Debug", "(*log/slog.Logger).Info", "(*log/slog.Logger).Warn", "(*log/slog.Logger).Error",
		"(*log/slog.Logger).With", "log/slog.Default", "fmt.Sprintf", "fmt.Println", "fmt.Printf", "fmt.Sprint",
		"(*github.com/mycoria/mycoria/mgr.Manager).Debug", "(*github.com/mycoria/mycoria/mgr.Manager).Info",
		"(*github.com/mycoria/mycoria/mgr.Manager).Warn", "(*github.com/mycoria/mycoria/mgr.Manager).Error"} {
		s[n] = nop
	}

	// ---- sync.Pool with a declared pool contract ----
	s["(*sync.Pool).Get"] = func(ex *Exec, fr *Frame, st *State, c *callCtx) Val {
		pc, owner, ownerT := ex.poolOf(fr, st, c)
		if pc == nil {
			ex.note("sync.Pool.Get on a pool without pool contract: value unconstrained")
			return ex.freshVal("poolget", c.results())
		}
		en := ex.newEnv(fr, st, ex.preState, nil)
		en.pkg = pkgOfType(ownerT)
		YT := en.resolveType(pc.Yields)
		var v Val
		switch yt := YT.Underlying().(type) {
		case *types.Pointer:
			ref := ex.newRef(st, "pooled")
			// a pooled object is owned by nobody else: it is modelled as a new object whose fields satisfy the pool invariant
			ex.storeObj(st, yt.Elem(), ref, ex.freshVal("pooled", yt.Elem()))
			v = Val{T: YT, L: []string{ref}}
		case *types.Slice:
			base := ex.newRef(st, "pooledmem")
			ex.havocMemBase(st, yt.Elem(), base)
			ln := ex.fresh("pooledlen", bv64)
			v = Val{T: YT, L: []string{base, bvLit(0, 64), ln, ln}}
			ex.assume("true", and(nonNeg(ln), app("bvult", ln, "#x0000100000000000")))
		default:
			v = ex.freshVal("pooled", YT)
		}
		for _, cl := range pc.Invs {
			en := ex.newEnv(fr, st, ex.preState, nil)
			en.pkg = pkgOfType(ownerT)
			en.vars["x"] = v
			en.vars["owner"] = Val{T: types.NewPointer(ownerT), L: []string{owner}}
			t, err := en.evalBool(cl.E)
			if err != nil {
				ex.errors = append(ex.errors, fmt.Sprintf("%s: pool invariant: %v", cl.Line, err))
				continue
			}
			ex.assume(st.pc, t)
		}
		ex.trusted["sync.Pool: Get returns an object satisfying the declared pool invariant that no one else holds ("+pc.Key+")"] = true
		// as interface value
		tag := fmt.Sprint(ex.typeTag("T:" + typeKey(YT)))
		ls := flatten(YT)
		if len(ls) == 1 && ls[0].Sort == sInt {
			return Val{T: c.results().At(0).Type(), L: []string{tag, v.L[0]}}
		}
		return Val{T: c.results().At(0).Type(), L: []string{tag, ex.box(YT, v)}}
	}
	s["(*sync.Pool).Put"] = func(ex *Exec, fr *Frame, st *State, c *callCtx) Val {
		pc, owner, ownerT := ex.poolOf(fr, st, c)
		if pc == nil {
			return Val{T: types.NewTuple()}
		}
		en := ex.newEnv(fr, st, ex.preState, nil)
		en.pkg = pkgOfType(ownerT)
		YT := en.resolveType(pc.Yields)
		x := c.args[1]
		tag := fmt.Sprint(ex.typeTag("T:" + typeKey(YT)))
		v := ex.unbox(YT, x.L[1])
		for _, cl := range pc.Invs {
			en := ex.newEnv(fr, st, ex.preState, nil)
			en.pkg = pkgOfType(ownerT)
			en.vars["x"] = v
			en.vars["owner"] = Val{T: types.NewPointer(ownerT), L: []string{owner}}
			t, err := en.evalBool(cl.E)
			if err != nil {
				ex.errors = append(ex.errors, fmt.Sprintf("%s: pool invariant: %v", cl.Line, err))
				continue
			}
			o := ex.oblige(fr, st, "pre", "pool-invariant."+cl.Label+"@call:"+pc.Key+".Put", implies(eq(x.L[0], tag), t), c.pos,
				"object put into "+pc.Key+" must satisfy the pool invariant "+cl.Src+": "+ex.srcLine(c.pos))
			if o != nil {
				o.Props = cl.Props
				o.HasQuant = en.quant
			}
		}
		return Val{T: types.NewTuple()}
	}

	// ---- atomics ----
	for _, w := range []struct {
		n string
	}{{"Uint32"}, {"Int32"}, {"Uint64"}, {"Int64"}, {"Bool"}, {"Uintptr"}} {
		tn := "(*sync/atomic." + w.n + ")"
		s[tn+".Load"] = func(ex *Exec, fr *Frame, st *State, c *callCtx) Val {
			v, _ := ex.atomicGet(fr, st, c)
			return ex.atomicOut(v, c)
		}
		s[tn+".Store"] = func(ex *Exec, fr *Frame, st *State, c *callCtx) Val {
			_, t := ex.atomicGet(fr, st, c)
			ex.storeT(st, t, ex.atomicIn(c.args[1], t.T))
			return Val{T: types.NewTuple()}
		}
		s[tn+".Add"] = func(ex *Exec, fr *Frame, st *State, c *callCtx) Val {
			v, t := ex.atomicGet(fr, st, c)
			nv := Val{T: t.T, L: []string{ex.def("atom", flatten(t.T)[0].Sort, app("bvadd", v.L[0], c.args[1].L[0]))}}
			ex.storeT(st, t, nv)
			return ex.atomicOut(nv, c)
		}
		s[tn+".Swap"] = func(ex *Exec, fr *Frame, st *State, c *callCtx) Val {
			v, t := ex.atomicGet(fr, st, c)
			ex.storeT(st, t, ex.atomicIn(c.args[1], t.T))
			return ex.atomicOut(v, c)
		}
		s[tn+".CompareAndSwap"] = func(ex *Exec, fr *Frame, st *State, c *callCtx) Val {
			v, t := ex.atomicGet(fr, st, c)
			o, n := ex.atomicIn(c.args[1], t.T), ex.atomicIn(c.args[2], t.T)
			ok := ex.def("cas", sBool, eq(v.L[0], o.L[0]))
			ex.storeT(st, t, Val{T: t.T, L: []string{ite(ok, n.L[0], v.L[0])}})
			return boolV(ok)
		}
	}
	// abool.AtomicBool is an int32
	ab := "(*github.com/tevino/abool.AtomicBool)"
	i32 := func(b string) string { return ite(b, bvLit(1, 32), bvLit(0, 32)) }
	s[ab+".IsSet"] = func(ex *Exec, fr *Frame, st *State, c *callCtx) Val {
		v, _ := ex.atomicGet(fr, st, c)
		return boolV(eq(v.L[0], bvLit(1, 32)))
	}
	s[ab+".IsNotSet"] = func(ex *Exec, fr *Frame, st *State, c *callCtx) Val {
		v, _ := ex.atomicGet(fr, st, c)
		return boolV(not(eq(v.L[0], bvLit(1, 32))))
	}
	s[ab+".Set"] = func(ex *Exec, fr *Frame, st *State, c *callCtx) Val {
		_, t := ex.atomicGet(fr, st, c)
		ex.storeT(st, t, Val{T: t.T, L: []string{bvLit(1, 32)}})
		return Val{T: types.NewTuple()}
	}
	s[ab+".UnSet"] = func(ex *Exec, fr *Frame, st *State, c *callCtx) Val {
		_, t := ex.atomicGet(fr, st, c)
		ex.storeT(st, t, Val{T: t.T, L: []string{bvLit(0, 32)}})
		return Val{T: types.NewTuple()}
	}
	s[ab+".SetTo"] = func(ex *Exec, fr *Frame, st *State, c *callCtx) Val {
		_, t := ex.atomicGet(fr, st, c)
		ex.storeT(st, t, Val{T: t.T, L: []string{i32(c.args[1].L[0])}})
		return Val{T: types.NewTuple()}
	}
	s[ab+".SetToIf"] = func(ex *Exec, fr *Frame, st *State, c *callCtx) Val {
		v, t := ex.atomicGet(fr, st, c)
		ok := ex.def("cas", sBool, eq(v.L[0], i32(c.args[1].L[0])))
		ex.storeT(st, t, Val{T: t.T, L: []string{ite(ok, i32(c.args[2].L[0]), v.L[0])}})
		return boolV(ok)
	}

	// ---- errors / fmt ----
	s["errors.New"] = func(ex *Exec, fr *Frame, st *State, c *callCtx) Val { return ex.freshErr(st, "new") }
	s["fmt.Errorf"] = func(ex *Exec, fr *Frame, st *State, c *callCtx) Val {
		e := ex.freshErr(st, "errorf")
		// %w wrapping: errors.Is(result, t) holds for every wrapped error argument
		if len(c.args) >= 2 {
			ex.wrapFacts(st, e, c.args[1])
		}
		return e
	}
	s["errors.Is"] = func(ex *Exec, fr *Frame, st *State, c *callCtx) Val {
		return boolV(ex.def("is", sBool, ex.errIs(c.args[0], c.args[1])))
	}
	s["error.Error"] = func(ex *Exec, fr *Frame, st *State, c *callCtx) Val {
		return ex.freshVal("errstr", types.Typ[types.String])
	}

	// ---- encoding/binary ----
	s["encoding/binary.Uvarint"] = func(ex *Exec, fr *Frame, st *State, c *callCtx) Val {
		// exact for encodings of up to three bytes (every uint16 switch label, every length prefix below 2^21);
		// longer ones: only the range of n and "n is none of 1, 2, 3"
		b := c.args[0]
		val := ex.fresh("uvarint", bv64)
		n := ex.fresh("uvn", bv64)
		l := b.L[2]
		b0 := ex.byteAt(st, b, bvLit(0, 64))
		b1 := ex.byteAt(st, b, bvLit(1, 64))
		b2 := ex.byteAt(st, b, bvLit(2, 64))
		ze := func(x string) string { return "((_ zero_extend 56) " + x + ")" }
		low := func(x string) string { return ze(app("bvand", x, "#x7f")) }
		has := func(k uint64) string { return app("bvsge", l, bvLit(k, 64)) }
		c0 := app("bvuge", b0, "#x80")
		c1 := app("bvuge", b1, "#x80")
		c2 := app("bvuge", b2, "#x80")
		is1 := and(has(1), not(c0))
		is2 := and(has(2), c0, not(c1))
		is3 := and(has(3), c0, c1, not(c2))
		short := or(not(has(1)), and(eq(l, bvLit(1, 64)), c0), and(eq(l, bvLit(2, 64)), c0, c1))
		ex.assume(st.pc, and(app("bvsle", n, bvLit(10, 64)), app("bvsge", n, "#xfffffffffffffff5"),
			app("bvsle", n, l),
			eq(is1, eq(n, bvLit(1, 64))),
			eq(is2, eq(n, bvLit(2, 64))),
			eq(is3, eq(n, bvLit(3, 64))),
			implies(short, eq(n, bvLit(0, 64))),
			implies(is1, eq(val, ze(b0))),
			implies(is2, eq(val, app("bvor", low(b0), app("bvshl", ze(b1), bvLit(7, 64))))),
			implies(is3, eq(val, app("bvor", low(b0), app("bvshl", low(b1), bvLit(7, 64)), app("bvshl", ze(b2), bvLit(14, 64))))),
			implies(app("bvsle", n, bvLit(0, 64)), eq(val, bvLit(0, 64)))))
		return tup(Val{T: types.Typ[types.Uint64], L: []string{val}}, intVal(n))
	}
	s["encoding/binary.PutUvarint"] = func(ex *Exec, fr *Frame, st *State, c *callCtx) Val {
		b, x := c.args[0], c.args[1].L[0]
		// length of the encoding
		n := ex.def("pvn", bv64, ex.varintLen(x))
		ex.oblige(fr, st, "pre", "PutUvarint-fits", app("bvsle", n, b.L[2]), c.pos, "binary.PutUvarint panics if the buffer is too small: "+ex.srcLine(c.pos))
		m := ex.byteMem(st)
		d := sel(m, b.L[0])
		ex.writeMem(st, []string{bytesKey()}, b.L[0], b.L[1], app("bvadd", b.L[1], n))
		body := func(i string) string {
			rel := app("bvsub", i, b.L[1])
			inside := and(app("bvule", b.L[1], i), app("bvult", rel, n))
			// byte k = (x >> 7k) & 0x7f | (k < n-1 ? 0x80 : 0)
			// seven value bits per byte, by position (constant extracts: no variable shift, no multiplication)
			low := "(concat #b0000000 ((_ extract 63 63) " + x + "))"
			for k := 8; k >= 0; k-- {
				low = ite(eq(rel, bvLit(uint64(k), 64)), fmt.Sprintf("(concat #b0 ((_ extract %d %d) %s))", 7*k+6, 7*k, x), low)
			}
			cont := ite(app("bvult", rel, app("bvsub", n, bvLit(1, 64))), "#x80", "#x00")
			return ite(inside, app("bvor", low, cont), sel(d, i))
		}
		ex.heapSet(st, bytesKey(), bytesSort(), store(m, b.L[0], ex.bulkArray("putuv", sBV(8), body)))
		return intVal(n)
	}
	s["slices.Reverse"] = func(ex *Exec, fr *Frame, st *State, c *callCtx) Val {
		a := c.args[0]
		sl, ok := a.T.Underlying().(*types.Slice)
		if !ok {
			return Val{T: types.NewTuple()}
		}
		E := sl.Elem()
		if _, isS := isPlainStruct(E); isS {
			ex.havocKeys(st, ex.structKeys(E))
			return Val{T: types.NewTuple()}
		}
		ls := flatten(E)
		for _, l := range ls {
			k := memKey(E, l, len(ls))
			srt := sArr(sInt, sArr(bv64, l.Sort))
			m := ex.heapGet(st, k, srt)
			d := sel(m, a.L[0])
			ex.writeMem(st, []string{k}, a.L[0], a.L[1], app("bvadd", a.L[1], a.L[2]))
			body := func(i string) string {
				rel := app("bvsub", i, a.L[1])
				inside := and(app("bvule", a.L[1], i), app("bvult", rel, a.L[2]))
				return ite(inside, sel(d, app("bvadd", a.L[1], app("bvsub", app("bvsub", a.L[2], bvLit(1, 64)), rel))), sel(d, i))
			}
			ex.heapSet(st, k, srt, store(m, a.L[0], ex.bulkArray("rev", l.Sort, body)))
		}
		return Val{T: types.NewTuple()}
	}
	s["bytes.Equal"] = func(ex *Exec, fr *Frame, st *State, c *callCtx) Val {
		a, b := c.args[0], c.args[1]
		r := ex.fresh("byteseq", sBool)
		ex.assume("true", implies(r, eq(a.L[2], b.L[2])))
		ex.assume("true", implies(and(eq(a.L[2], bvLit(0, 64)), eq(b.L[2], bvLit(0, 64))), r))
		// same memory region compares equal
		ex.assume("true", implies(and(eq(a.L[0], b.L[0]), eq(a.L[1], b.L[1]), eq(a.L[2], b.L[2])), r))
		return boolV(r)
	}
	s["crypto/subtle.ConstantTimeCompare"] = func(ex *Exec, fr *Frame, st *State, c *callCtx) Val {
		a, b := c.args[0], c.args[1]
		ex.cryptoEvent(fr, st, "ConstantTimeCompare", c)
		r := ex.fresh("ctcmp", sBool)
		ex.ghostVars["ctcmp_ok"] = boolVal(r)
		ex.ctcmpN++
		ex.ghostVars[fmt.Sprintf("ctcmp_ok_%d", ex.ctcmpN)] = boolVal(r)
		// equal contents compare equal: the same memory region in particular
		ex.assume("true", implies(and(eq(a.L[0], b.L[0]), eq(a.L[1], b.L[1]), eq(a.L[2], b.L[2])), r))
		ex.assume("true", implies(r, eq(a.L[2], b.L[2])))
		return intVal(ite(r, bvLit(1, 64), bvLit(0, 64)))
	}

	// ---- crypto/rand ----
	s["crypto/rand.Read"] = func(ex *Exec, fr *Frame, st *State, c *callCtx) Val {
		b := c.args[0]
		ex.cryptoEvent(fr, st, "rand.Read", c)
		ex.havocSlice(st, b)
		return tup(intVal(b.L[2]), ex.maybeErr(st, "rand"))
	}

	// ---- ed25519 ----
	s["crypto/ed25519.Sign"] = func(ex *Exec, fr *Frame, st *State, c *callCtx) Val {
		ex.oblige(fr, st, "pre", "ed25519-privkey-size", eq(c.args[0].L[2], bvLit(64, 64)), c.pos, "ed25519.Sign panics unless len(priv)==64: "+ex.srcLine(c.pos))
		ex.cryptoEvent(fr, st, "ed25519.Sign", c)
		base := ex.newRef(st, "sig")
		ex.havocMemBase(st, types.Typ[types.Uint8], base)
		return Val{T: c.results().At(0).Type(), L: []string{base, bvLit(0, 64), bvLit(64, 64), bvLit(64, 64)}}
	}
	s["github.com/mycoria/crop.MakeEd25519KeyPair"] = func(ex *Exec, fr *Frame, st *State, c *callCtx) Val {
		// derives the public key with priv.Public() when none is given: that slices priv[32:]
		priv, pub := c.args[0], c.args[1]
		ex.oblige(fr, st, "pre", "keypair-privkey-size", or(not(eq(pub.L[2], bvLit(0, 64))), or(eq(priv.L[2], bvLit(0, 64)), app("bvsge", priv.L[2], bvLit(32, 64)))), c.pos,
			"crop.MakeEd25519KeyPair panics on a private key shorter than 32 bytes when no public key is given: "+ex.srcLine(c.pos))
		return ex.externalCall(fr, st, c.fn, c.args, c.argVals, c.pos)
	}
	s["(*crypto/ecdh.PrivateKey).ECDH"] = func(ex *Exec, fr *Frame, st *State, c *callCtx) Val {
		ex.oblige(fr, st, "nil", "ecdh-private-key-present", not(eq(c.args[0].L[0], "0")), c.pos, "(*ecdh.PrivateKey).ECDH on a nil key panics: "+ex.srcLine(c.pos))
		ex.oblige(fr, st, "nil", "ecdh-remote-key-present", not(eq(c.args[1].L[0], "0")), c.pos, "(*ecdh.PrivateKey).ECDH with a nil remote key panics: "+ex.srcLine(c.pos))
		return ex.externalCall(fr, st, c.fn, c.args, c.argVals, c.pos)
	}
	// ---- crypto/ecdh (X25519 key exchange): keys are opaque objects; a constructor returns a key exactly when it
	// returns no error; nothing is written to memory the caller can see
	s["crypto/ecdh.X25519"] = func(ex *Exec, fr *Frame, st *State, c *callCtx) Val {
		tag := fmt.Sprint(ex.typeTag("T:*ecdh.x25519Curve"))
		return Val{T: c.results().At(0).Type(), L: []string{tag, ex.newRef(st, "curve")}}
	}
	ecdhKey := func(name string) specFn {
		return func(ex *Exec, fr *Frame, st *State, c *callCtx) Val {
			okv := ex.fresh(name+".ok", sBool)
			ref := ex.newRef(st, name)
			e := ex.freshErr(st, name)
			return tup(Val{T: c.results().At(0).Type(), L: []string{ite(okv, ref, "0")}},
				Val{T: errType(), L: []string{ite(okv, "0", e.L[0]), ite(okv, "0", e.L[1])}})
		}
	}
	s["crypto/ecdh.Curve.GenerateKey"] = ecdhKey("kxprivate")
	s["crypto/ecdh.Curve.NewPublicKey"] = ecdhKey("kxpublic")
	s["(*crypto/ecdh.PrivateKey).PublicKey"] = func(ex *Exec, fr *Frame, st *State, c *callCtx) Val {
		ex.oblige(fr, st, "nil", "ecdh-private-key-present", not(eq(c.args[0].L[0], "0")), c.pos, "(*ecdh.PrivateKey).PublicKey on a nil key panics: "+ex.srcLine(c.pos))
		return Val{T: c.results().At(0).Type(), L: []string{ex.newRef(st, "kxpub")}}
	}
	s["(*crypto/ecdh.PublicKey).Bytes"] = func(ex *Exec, fr *Frame, st *State, c *callCtx) Val {
		ex.oblige(fr, st, "nil", "ecdh-public-key-present", not(eq(c.args[0].L[0], "0")), c.pos, "(*ecdh.PublicKey).Bytes on a nil key panics: "+ex.srcLine(c.pos))
		base := ex.newRef(st, "kxbytes")
		ex.havocMemBase(st, types.Typ[types.Uint8], base)
		return Val{T: c.results().At(0).Type(), L: []string{base, bvLit(0, 64), bvLit(32, 64), bvLit(32, 64)}}
	}
	s["crypto/ed25519.Verify"] = func(ex *Exec, fr *Frame, st *State, c *callCtx) Val {
		ex.oblige(fr, st, "pre", "ed25519-pubkey-size", eq(c.args[0].L[2], bvLit(32, 64)), c.pos, "ed25519.Verify panics unless len(pub)==32: "+ex.srcLine(c.pos))
		ex.cryptoEvent(fr, st, "ed25519.Verify", c)
		okv := ex.fresh("sigok", sBool)
		ex.ghostVars["sig_ok"] = boolVal(okv)
		return boolV(okv)
	}
	s["crypto/ed25519.VerifyWithOptions"] = func(ex *Exec, fr *Frame, st *State, c *callCtx) Val {
		ex.oblige(fr, st, "pre", "ed25519-pubkey-size", eq(c.args[0].L[2], bvLit(32, 64)), c.pos, "ed25519.VerifyWithOptions panics unless len(pub)==32: "+ex.srcLine(c.pos))
		ex.cryptoEvent(fr, st, "ed25519.VerifyWithOptions", c)
		// nil exactly when the signature verifies (the verdict is visible to contracts as sig_ok)
		okv := ex.fresh("sigok", sBool)
		ex.ghostVars["sig_ok"] = boolVal(okv)
		e := ex.freshErr(st, "verify")
		return Val{T: errType(), L: []string{ite(okv, "0", e.L[0]), ite(okv, "0", e.L[1])}}
	}

	// ---- cipher.AEAD (ChaCha20-Poly1305) ----
	s["crypto/cipher.AEAD.Seal"] = func(ex *Exec, fr *Frame, st *State, c *callCtx) Val {
		dst, nonce, pt := c.args[0], c.args[1], c.args[2]
		ex.oblige(fr, st, "pre", "aead-nonce-size", eq(nonce.L[2], bvLit(12, 64)), c.pos, "AEAD.Seal panics unless len(nonce)==12: "+ex.srcLine(c.pos))
		ex.cryptoEvent(fr, st, "AEAD.Seal", c)
		// result = append(dst, ciphertext||tag): in place when capacity suffices
		need := ex.def("aeadneed", bv64, app("bvadd", dst.L[2], app("bvadd", pt.L[2], bvLit(16, 64))))
		fits := app("bvsle", need, dst.L[3])
		nb := ex.newRef(st, "aeadout")
		base := ex.def("aeadb", sInt, ite(fits, dst.L[0], nb))
		m := ex.byteMem(st)
		d := sel(m, dst.L[0])
		fr0 := ex.fresh("ct", sArr(bv64, sBV(8)))
		off := ex.def("aeado", bv64, ite(fits, dst.L[1], bvLit(0, 64)))
		ex.writeMem(st, []string{bytesKey()}, dst.L[0], app("bvadd", dst.L[1], dst.L[2]), ite(fits, app("bvadd", dst.L[1], need), app("bvadd", dst.L[1], dst.L[2])))
		body := func(i string) string {
			rel := app("bvsub", i, off)
			return ite(and(app("bvule", off, i), app("bvult", rel, need), app("bvuge", rel, dst.L[2])), sel(fr0, i), ite(fits, sel(d, i), sel(fr0, i)))
		}
		ex.heapSet(st, bytesKey(), bytesSort(), store(m, base, ex.bulkArray("aead", sBV(8), body)))
		return Val{T: c.results().At(0).Type(), L: []string{base, off, need, ite(fits, dst.L[3], need)}}
	}
	s["crypto/cipher.AEAD.Open"] = func(ex *Exec, fr *Frame, st *State, c *callCtx) Val {
		dst, nonce, ct := c.args[0], c.args[1], c.args[2]
		ex.oblige(fr, st, "pre", "aead-nonce-size", eq(nonce.L[2], bvLit(12, 64)), c.pos, "AEAD.Open panics unless len(nonce)==12: "+ex.srcLine(c.pos))
		ex.cryptoEvent(fr, st, "AEAD.Open", c)
		okv := ex.fresh("aeadok", sBool)
		ex.ghostVars["aead_ok"] = boolVal(okv)
		ex.assume("true", implies(okv, app("bvsge", ct.L[2], bvLit(16, 64))))
		// on success plaintext (len-16) is written at dst; on failure dst memory may be clobbered
		ex.havocSlice(st, Val{T: dst.T, L: []string{dst.L[0], app("bvadd", dst.L[1], dst.L[2]), ct.L[2], ct.L[2]}})
		e := ex.freshErr(st, "aead")
		pl := app("bvsub", ct.L[2], bvLit(16, 64))
		out := Val{T: c.results().At(0).Type(), L: []string{ite(okv, dst.L[0], "0"), ite(okv, dst.L[1], bvLit(0, 64)),
			ite(okv, app("bvadd", dst.L[2], pl), bvLit(0, 64)), ite(okv, dst.L[3], bvLit(0, 64))}}
		return tup(out, Val{T: errType(), L: []string{ite(okv, "0", e.L[0]), ite(okv, "0", e.L[1])}})
	}
	s["crypto/cipher.AEAD.NonceSize"] = func(ex *Exec, fr *Frame, st *State, c *callCtx) Val { return intVal(bvLit(12, 64)) }
	s["crypto/cipher.AEAD.Overhead"] = func(ex *Exec, fr *Frame, st *State, c *callCtx) Val { return intVal(bvLit(16, 64)) }

	// ---- key derivation / cipher construction ----
	s["github.com/zeebo/blake3.DeriveKey"] = func(ex *Exec, fr *Frame, st *State, c *callCtx) Val {
		ex.havocSlice(st, c.args[2]) // writes the output buffer only
		return Val{T: types.NewTuple()}
	}
	s["golang.org/x/crypto/chacha20poly1305.New"] = func(ex *Exec, fr *Frame, st *State, c *callCtx) Val {
		okc := eq(c.args[0].L[2], bvLit(32, 64))
		ref := ex.newRef(st, "aead")
		// the cipher is bound to the key bytes it was created from (ghost function aeadkey)
		kf := ex.declFun("aeadkey", []string{sInt}, sInt)
		ex.assume(st.pc, eq(app(kf, ref), c.args[0].L[0]))
		kfo := ex.declFun("aeadkeyoff", []string{sInt}, bv64)
		ex.assume(st.pc, eq(app(kfo, ref), c.args[0].L[1]))
		e := ex.freshErr(st, "keysize")
		tag := fmt.Sprint(ex.typeTag("T:*chacha20poly1305.chacha20poly1305"))
		return tup(Val{T: c.results().At(0).Type(), L: []string{ite(okc, tag, "0"), ite(okc, ref, "0")}},
			Val{T: errType(), L: []string{ite(okc, "0", e.L[0]), ite(okc, "0", e.L[1])}})
	}

	// slices.BinarySearchFunc(s, target, cmp): position in 0..len(s); found implies position < len(s).
	// The comparison function is assumed to be free of side effects (every comparator in the module is).
	s["slices.BinarySearchFunc"] = func(ex *Exec, fr *Frame, st *State, c *callCtx) Val {
		n := c.args[0].L[2]
		i := ex.fresh("bsearch.i", bv64)
		found := ex.fresh("bsearch.found", sBool)
		ex.assume("true", and(app("bvsle", bvLit(0, 64), i), app("bvsle", i, n), implies(found, app("bvslt", i, n))))
		return tup(intVal(i), boolV(found))
	}

	// regexp matching is a function of the compiled expression and the text (no panic, no effect)
	s["(*regexp.Regexp).MatchString"] = func(ex *Exec, fr *Frame, st *State, c *callCtx) Val {
		f := ex.declFun("uf|regexmatch", []string{sInt, sStr}, sBool)
		return boolV(app(f, c.args[0].L[0], c.args[1].L[0]))
	}

	// ---- slices / strings helpers (deterministic functions of their arguments) ----
	s["slices.Contains"] = func(ex *Exec, fr *Frame, st *State, c *callCtx) Val {
		return boolV(ex.def("contains", sBool, ex.containsTerm(st, c.args[0], c.args[1])))
	}
	s["strings.CutSuffix"] = func(ex *Exec, fr *Frame, st *State, c *callCtx) Val {
		cut := app(ex.declFun("uf|hassuffix", []string{sStr, sStr}, sBool), c.args[0].L[0], c.args[1].L[0])
		before := app(ex.declFun("uf|cutsuffix", []string{sStr, sStr}, sStr), c.args[0].L[0], c.args[1].L[0])
		return tup(Val{T: types.Typ[types.String], L: []string{ite(cut, before, c.args[0].L[0])}}, boolV(cut))
	}
	s["strings.HasSuffix"] = func(ex *Exec, fr *Frame, st *State, c *callCtx) Val {
		return boolV(app(ex.declFun("uf|hassuffix", []string{sStr, sStr}, sBool), c.args[0].L[0], c.args[1].L[0]))
	}
	s["strings.TrimSuffix"] = func(ex *Exec, fr *Frame, st *State, c *callCtx) Val {
		cut := app(ex.declFun("uf|hassuffix", []string{sStr, sStr}, sBool), c.args[0].L[0], c.args[1].L[0])
		before := app(ex.declFun("uf|cutsuffix", []string{sStr, sStr}, sStr), c.args[0].L[0], c.args[1].L[0])
		return Val{T: types.Typ[types.String], L: []string{ite(cut, before, c.args[0].L[0])}}
	}
	s["strings.ToLower"] = func(ex *Exec, fr *Frame, st *State, c *callCtx) Val {
		return Val{T: types.Typ[types.String], L: []string{app(ex.declFun("uf|tolower", []string{sStr}, sStr), c.args[0].L[0])}}
	}

	// ---- file system effect model (DESIGN 2.8): content ids per file name; 0 absent, -1 partial/corrupt, >0 a complete content ----
	// os.ReadFile: unconstrained content or an error; visible to "callsite os.ReadFile" clauses
	s["os.ReadFile"] = func(ex *Exec, fr *Frame, st *State, c *callCtx) Val {
		base := ex.newRef(st, "readfile")
		ex.havocMemBase(st, types.Typ[types.Uint8], base)
		ln := ex.fresh("filelen", bv64)
		ex.assume("true", and(app("bvsge", ln, bvLit(0, 64)), app("bvult", ln, "#x0000100000000000")))
		isErr := ex.fresh("fails.readfile", sBool)
		e := ex.freshErr(st, "readfile")
		return tup(Val{T: c.results().At(0).Type(), L: []string{ite(isErr, "0", base), bvLit(0, 64), ite(isErr, bvLit(0, 64), ln), ite(isErr, bvLit(0, 64), ln)}},
			Val{T: errType(), L: []string{ite(isErr, e.L[0], "0"), ite(isErr, e.L[1], "0")}})
	}
	s["os.WriteFile"] = func(ex *Exec, fr *Frame, st *State, c *callCtx) Val {
		name := c.args[0].L[0]
		cid := ex.fresh("content", sInt)
		ex.assume("true", "(> "+cid+" 0)")
		ex.ghostVars["fs_written"] = Val{T: types.Typ[types.UnsafePointer], L: []string{cid}}
		fs := ex.heapGet(st, "FS|c", sArr(sStr, sInt))
		// a crash inside WriteFile leaves the file truncated or partially written
		ex.crashCheck(fr, st, store(fs, name, "(- 1)"), c.pos, "os.WriteFile truncates the file and writes it in place")
		okv := ex.fresh("writeok", sBool)
		e := ex.freshErr(st, "writefile")
		// on error the file may be partial as well
		ex.heapSet(st, "FS|c", sArr(sStr, sInt), store(fs, name, ite(okv, cid, "(- 1)")))
		return Val{T: errType(), L: []string{ite(okv, "0", e.L[0]), ite(okv, "0", e.L[1])}}
	}
	s["os.Rename"] = func(ex *Exec, fr *Frame, st *State, c *callCtx) Val {
		from, to := c.args[0].L[0], c.args[1].L[0]
		fs := ex.heapGet(st, "FS|c", sArr(sStr, sInt))
		after := store(store(fs, to, sel(fs, from)), from, "0")
		// rename is atomic: a crash leaves either the state before or the state after
		ex.crashCheck(fr, st, after, c.pos, "os.Rename replaces the target atomically")
		okv := ex.fresh("renameok", sBool)
		e := ex.freshErr(st, "rename")
		ex.heapSet(st, "FS|c", sArr(sStr, sInt), ite(okv, after, fs))
		return Val{T: errType(), L: []string{ite(okv, "0", e.L[0]), ite(okv, "0", e.L[1])}}
	}
	s["os.Remove"] = func(ex *Exec, fr *Frame, st *State, c *callCtx) Val {
		name := c.args[0].L[0]
		fs := ex.heapGet(st, "FS|c", sArr(sStr, sInt))
		after := store(fs, name, "0")
		ex.crashCheck(fr, st, after, c.pos, "os.Remove deletes the file")
		okv := ex.fresh("removeok", sBool)
		e := ex.freshErr(st, "remove")
		ex.heapSet(st, "FS|c", sArr(sStr, sInt), ite(okv, after, fs))
		return Val{T: errType(), L: []string{ite(okv, "0", e.L[0]), ite(okv, "0", e.L[1])}}
	}

	// ---- reflect (only what NewGroup uses) ----
	s["reflect.ValueOf"] = func(ex *Exec, fr *Frame, st *State, c *callCtx) Val {
		a := c.args[0]
		if len(a.L) == 2 {
			return Val{T: c.results().At(0).Type(), L: []string{a.L[0], a.L[1]}}
		}
		return ex.freshVal("reflectvalue", c.results().At(0).Type())
	}
	s["(reflect.Value).IsNil"] = func(ex *Exec, fr *Frame, st *State, c *callCtx) Val {
		// for pointer kinds: the pointer is nil (other kinds panic or are handled by the caller; trusted)
		return boolV(eq(c.args[0].L[1], "0"))
	}

	// ---- miekg/dns ----
	s["(*github.com/miekg/dns.Msg).SetRcode"] = func(ex *Exec, fr *Frame, st *State, c *callCtx) Val {
		// fills the receiver as a reply to the request and returns the receiver
		pt := c.args[0].T.Underlying().(*types.Pointer)
		ex.storeDecoded(st, pt.Elem(), c.args[0].L[0])
		return Val{T: c.results().At(0).Type(), L: []string{c.args[0].L[0]}}
	}

	// ---- net/url, strconv ----
	s["net/url.Parse"] = func(ex *Exec, fr *Frame, st *State, c *callCtx) Val {
		ref := ex.newRef(st, "url")
		UT := c.results().At(0).Type().Underlying().(*types.Pointer).Elem()
		ex.storeDecoded(st, UT, ref)
		isErr := ex.fresh("fails.urlparse", sBool)
		e := ex.freshErr(st, "urlparse")
		return tup(Val{T: c.results().At(0).Type(), L: []string{ite(isErr, "0", ref)}}, Val{T: errType(), L: []string{ite(isErr, e.L[0], "0"), ite(isErr, e.L[1], "0")}})
	}
	s["(*net/url.URL).Port"] = func(ex *Exec, fr *Frame, st *State, c *callCtx) Val {
		return Val{T: types.Typ[types.String], L: []string{app(ex.declFun("uf|urlport", []string{sInt}, sStr), c.args[0].L[0])}}
	}
	s["(*net/url.URL).Hostname"] = func(ex *Exec, fr *Frame, st *State, c *callCtx) Val {
		return Val{T: types.Typ[types.String], L: []string{app(ex.declFun("uf|urlhost", []string{sInt}, sStr), c.args[0].L[0])}}
	}
	s["strconv.ParseUint"] = func(ex *Exec, fr *Frame, st *State, c *callCtx) Val {
		v := ex.def("parsed", bv64, app(ex.declFun("uf|parseuint", []string{sStr}, bv64), c.args[0].L[0]))
		e := ex.maybeErr(st, "parseuint")
		bits := c.args[2].L[0]
		// on success the value fits into bitSize bits (bitSize 0 means 64)
		lim := app("bvshl", bvLit(1, 64), bits)
		ex.assume(st.pc, implies(and(eq(e.L[0], "0"), app("bvult", bits, bvLit(64, 64)), not(eq(bits, bvLit(0, 64)))), app("bvult", v, lim)))
		return tup(Val{T: types.Typ[types.Uint64], L: []string{v}}, e)
	}

	// ---- net.Conn ----
	s["net.Conn.Read"] = func(ex *Exec, fr *Frame, st *State, c *callCtx) Val {
		b := c.args[0]
		ex.havocSlice(st, b)
		n := ex.fresh("nread", bv64)
		ex.assume(st.pc, and(nonNeg(n), app("bvsle", n, b.L[2])))
		e := ex.maybeErr(st, "read")
		return tup(intVal(n), e)
	}
	s["net.Conn.Write"] = func(ex *Exec, fr *Frame, st *State, c *callCtx) Val {
		b := c.args[0]
		n := ex.fresh("nwritten", bv64)
		e := ex.maybeErr(st, "write")
		// io.Writer: n < len(p) implies a non-nil error
		ex.assume(st.pc, and(nonNeg(n), app("bvsle", n, b.L[2]), implies(eq(e.L[0], "0"), eq(n, b.L[2]))))
		return tup(intVal(n), e)
	}
	for _, n := range []string{"net.Conn.Close", "net.Conn.SetDeadline", "net.Conn.SetReadDeadline", "net.Conn.SetWriteDeadline"} {
		s[n] = func(ex *Exec, fr *Frame, st *State, c *callCtx) Val { return ex.maybeErr(st, "conn") }
	}

	// ---- codecs: deterministic, do not panic, do not write their input (trusted) ----
	unmarshal := func(ex *Exec, fr *Frame, st *State, c *callCtx) Val {
		// the target (second argument, a pointer boxed in an interface) is overwritten with unconstrained content
		if len(c.argVals) >= 2 {
			if mi, ok := c.argVals[1].(*ssa.MakeInterface); ok {
				if pt, ok := mi.X.Type().Underlying().(*types.Pointer); ok {
					ref := ex.value(fr, st, mi.X).L[0]
					ex.storeDecoded(st, pt.Elem(), ref)
				}
			} else {
				ex.note("decode into a value of unknown static type: target left unchanged")
			}
		}
		return ex.maybeErr(st, "decode")
	}
	s["github.com/fxamacker/cbor/v2.Unmarshal"] = unmarshal
	s["encoding/json.Unmarshal"] = unmarshal
	marshal := func(ex *Exec, fr *Frame, st *State, c *callCtx) Val {
		base := ex.newRef(st, "encoded")
		ex.havocMemBase(st, types.Typ[types.Uint8], base)
		ln := ex.fresh("enclen", bv64)
		ex.assume("true", and(nonNeg(ln), app("bvult", ln, "#x0000000000100000")))
		isErr := ex.fresh("fails.encode", sBool)
		e := ex.freshErr(st, "encode")
		return tup(Val{T: c.results().At(0).Type(), L: []string{ite(isErr, "0", base), bvLit(0, 64), ite(isErr, bvLit(0, 64), ln), ite(isErr, bvLit(0, 64), ln)}},
			Val{T: errType(), L: []string{ite(isErr, e.L[0], "0"), ite(isErr, e.L[1], "0")}})
	}
	s["github.com/fxamacker/cbor/v2.Marshal"] = marshal
	s["encoding/json.Marshal"] = marshal
	s["encoding/json.MarshalIndent"] = marshal

	// ---- crop hashes (github.com/mycoria/crop) ----
	hashValid := func(ex *Exec, h string) string {
		f := ex.declFun("uf|hashvalid", []string{sStr}, sBool)
		// the hash the module itself uses for addresses is a known one (trusted fact about github.com/mycoria/crop)
		ex.axiom(app(f, ex.strLit("BLAKE3")))
		return app(f, h)
	}
	s["crypto/ed25519.GenerateKey"] = func(ex *Exec, fr *Frame, st *State, c *callCtx) Val {
		pb, sb := ex.newRef(st, "pubkey"), ex.newRef(st, "privkey")
		ex.havocMemBase(st, types.Typ[types.Uint8], pb)
		ex.havocMemBase(st, types.Typ[types.Uint8], sb)
		isErr := ex.fresh("fails.genkey", sBool)
		e := ex.freshErr(st, "genkey")
		return tup(Val{T: c.results().At(0).Type(), L: []string{ite(isErr, "0", pb), bvLit(0, 64), ite(isErr, bvLit(0, 64), bvLit(32, 64)), ite(isErr, bvLit(0, 64), bvLit(32, 64))}},
			Val{T: c.results().At(1).Type(), L: []string{ite(isErr, "0", sb), bvLit(0, 64), ite(isErr, bvLit(0, 64), bvLit(64, 64)), ite(isErr, bvLit(0, 64), bvLit(64, 64))}},
			Val{T: errType(), L: []string{ite(isErr, e.L[0], "0"), ite(isErr, e.L[1], "0")}})
	}
	s["(github.com/mycoria/crop.Hash).IsValid"] = func(ex *Exec, fr *Frame, st *State, c *callCtx) Val {
		return boolV(hashValid(ex, c.args[0].L[0]))
	}
	s["(github.com/mycoria/crop.Hash).New"] = func(ex *Exec, fr *Frame, st *State, c *callCtx) Val {
		// returns nil for unknown hash names
		ok := hashValid(ex, c.args[0].L[0])
		ref := ex.newRef(st, "hasher")
		tag := fmt.Sprint(ex.typeTag("T:hash.Hash-impl"))
		return Val{T: c.results().At(0).Type(), L: []string{ite(ok, tag, "0"), ite(ok, ref, "0")}}
	}
	// Hash.Digest(data): one-shot digest; the exact input is visible to "callsite Hash.Digest" clauses (arg1)
	s["(github.com/mycoria/crop.Hash).Digest"] = func(ex *Exec, fr *Frame, st *State, c *callCtx) Val {
		ex.cryptoEvent(fr, st, "Hash.Digest", c)
		base := ex.newRef(st, "digest")
		ex.havocMemBase(st, types.Typ[types.Uint8], base)
		ln := ex.fresh("digestlen", bv64)
		ex.assume("true", and(app("bvsge", ln, bvLit(0, 64)), app("bvult", ln, "#x0000000000010000")))
		return Val{T: c.results().At(0).Type(), L: []string{base, bvLit(0, 64), ln, ln}}
	}
	s["hash.Hash.Write"] = func(ex *Exec, fr *Frame, st *State, c *callCtx) Val {
		ex.cryptoEvent(fr, st, "hash.Write", c)
		return tup(intVal(c.args[0].L[2]), nilErr())
	}
	s["hash.Hash.Reset"] = func(ex *Exec, fr *Frame, st *State, c *callCtx) Val { return Val{T: types.NewTuple()} }
	s["hash.Hash.Sum"] = func(ex *Exec, fr *Frame, st *State, c *callCtx) Val {
		// appends the digest to the argument: a new buffer unless the capacity suffices (both are havoced here)
		base := ex.newRef(st, "digest")
		ex.havocMemBase(st, types.Typ[types.Uint8], base)
		ln := ex.fresh("digestlen", bv64)
		ex.assume("true", and(app("bvsge", ln, c.args[0].L[2]), app("bvult", ln, "#x0000000000010000")))
		return Val{T: c.results().At(0).Type(), L: []string{base, bvLit(0, 64), ln, ln}}
	}
	s["(net/netip.Addr).AsSlice"] = func(ex *Exec, fr *Frame, st *State, c *callCtx) Val {
		a := c.args[0].L[0]
		base := ex.newRef(st, "asslice")
		t := zeroOf(sArr(bv64, sBV(8)))
		for i := 0; i < 16; i++ {
			hi := 127 - 8*i
			t = store(t, bvLit(uint64(i), 64), fmt.Sprintf("((_ extract %d %d) %s)", hi, hi-7, a))
		}
		m := ex.byteMem(st)
		st.heap[bytesKey()] = ex.def(bytesKey(), bytesSort(), store(m, base, t))
		z := "((_ extract 129 128) " + a + ")"
		ln := ex.def("asl", bv64, ite(eq(z, "#b00"), bvLit(0, 64), ite(eq(z, "#b01"), bvLit(4, 64), bvLit(16, 64))))
		return Val{T: c.results().At(0).Type(), L: []string{ite(eq(z, "#b00"), "0", base), bvLit(0, 64), ln, ln}}
	}

	// ---- netip ----
	s["(net/netip.Addr).IsValid"] = func(ex *Exec, fr *Frame, st *State, c *callCtx) Val {
		return boolV(not(eq("((_ extract 129 128) "+c.args[0].L[0]+")", "#b00")))
	}
	s["(net/netip.Addr).As16"] = func(ex *Exec, fr *Frame, st *State, c *callCtx) Val {
		a := c.args[0].L[0]
		t := zeroOf(sArr(bv64, sBV(8)))
		for i := 0; i < 16; i++ {
			hi := 127 - 8*i
			t = store(t, bvLit(uint64(i), 64), fmt.Sprintf("((_ extract %d %d) %s)", hi, hi-7, a))
		}
		return Val{T: c.results().At(0).Type(), L: []string{ex.def("as16", sArr(bv64, sBV(8)), t)}}
	}
	s["net/netip.AddrFrom16"] = func(ex *Exec, fr *Frame, st *State, c *callCtx) Val {
		arr := c.args[0].L[0]
		t := "#b10"
		for i := 0; i < 16; i++ {
			t = app("concat", t, sel(arr, bvLit(uint64(i), 64)))
		}
		return Val{T: c.results().At(0).Type(), L: []string{ex.def("from16", sAddr, t)}}
	}
	s["(net/netip.Addr).Compare"] = func(ex *Exec, fr *Frame, st *State, c *callCtx) Val {
		a, b := c.args[0].L[0], c.args[1].L[0]
		return intVal(ite(eq(a, b), bvLit(0, 64), ite(app("bvult", a, b), "#xffffffffffffffff", bvLit(1, 64))))
	}
	s["(net/netip.Addr).Less"] = func(ex *Exec, fr *Frame, st *State, c *callCtx) Val {
		return boolV(app("bvult", c.args[0].L[0], c.args[1].L[0]))
	}
	s["(net/netip.Prefix).Addr"] = func(ex *Exec, fr *Frame, st *State, c *callCtx) Val {
		// a Prefix is (ip, bitsPlusOne)
		p := c.args[0]
		if len(p.L) >= 2 {
			return Val{T: c.results().At(0).Type(), L: []string{p.L[0]}}
		}
		return ex.freshVal("pfxaddr", c.results().At(0).Type())
	}
	s["(net/netip.Prefix).Bits"] = func(ex *Exec, fr *Frame, st *State, c *callCtx) Val {
		p := c.args[0]
		if len(p.L) >= 2 {
			return intVal(app("bvsub", "((_ zero_extend 56) "+p.L[1]+")", bvLit(1, 64)))
		}
		return ex.freshVal("pfxbits", c.results().At(0).Type())
	}
	s["(net/netip.Prefix).Contains"] = func(ex *Exec, fr *Frame, st *State, c *callCtx) Val {
		f := ex.declFun("uf|prefixContains", []string{sAddr, sBV(8), sAddr}, sBool)
		p := c.args[0]
		if len(p.L) >= 2 {
			return boolV(ex.def("pfx", sBool, app(f, p.L[0], p.L[1], c.args[1].L[0])))
		}
		return boolV(ex.fresh("pfx", sBool))
	}

	// ---- time ----
	tcmp := func(op string) specFn {
		return func(ex *Exec, fr *Frame, st *State, c *callCtx) Val {
			if op == "=" {
				return boolV(eq(c.args[0].L[0], c.args[1].L[0]))
			}
			return boolV(app(op, c.args[0].L[0], c.args[1].L[0]))
		}
	}
	// time.Now: an arbitrary instant; contracts name the most recent reading "time_now"
	s["time.Now"] = func(ex *Exec, fr *Frame, st *State, c *callCtx) Val {
		v := ex.freshVal("now", c.results().At(0).Type())
		if fr == ex.rootFrame {
			ex.lastNow = &v
		}
		return v
	}
	s["(time.Time).Before"] = tcmp("<")
	s["(time.Time).After"] = tcmp(">")
	s["(time.Time).Equal"] = tcmp("=")
	s["(time.Time).IsZero"] = func(ex *Exec, fr *Frame, st *State, c *callCtx) Val {
		return boolV(eq(c.args[0].L[0], "0"))
	}
	s["(time.Time).UnixMilli"] = func(ex *Exec, fr *Frame, st *State, c *callCtx) Val {
		f := ex.declFun("unixMilli", []string{sInt}, bv64)
		return Val{T: types.Typ[types.Int64], L: []string{app(f, c.args[0].L[0])}}
	}
	s["time.UnixMilli"] = func(ex *Exec, fr *Frame, st *State, c *callCtx) Val {
		f := ex.declFun("fromUnixMilli", []string{bv64}, sInt)
		return Val{T: c.results().At(0).Type(), L: []string{app(f, c.args[0].L[0])}}
	}
}

func (ex *Exec) atomicOut(v Val, c *callCtx) Val {
	RT := c.results().At(0).Type()
	if flatten(RT)[0].Sort == sBool && len(v.L) == 1 && sortWidth(flatten(v.T)[0].Sort) > 0 {
		return boolV(not(eq(v.L[0], bvLit(0, sortWidth(flatten(v.T)[0].Sort)))))
	}
	return Val{T: RT, L: v.L}
}

func (ex *Exec) atomicIn(a Val, T types.Type) Val {
	w := sortWidth(flatten(T)[0].Sort)
	if len(a.L) == 1 && flatten(a.T)[0].Sort == sBool && w > 0 {
		return Val{T: T, L: []string{ite(a.L[0], bvLit(1, w), bvLit(0, w))}}
	}
	return Val{T: T, L: a.L}
}

// varintLen is the number of bytes binary.PutUvarint writes for x.
func (ex *Exec) varintLen(x string) string {
	t := bvLit(10, 64)
	for n := 9; n >= 1; n-- {
		t = ite(app("bvult", x, bvLit(uint64(1)<<(7*uint(n)), 64)), bvLit(uint64(n), 64), t)
	}
	return t
}

// wrapFacts: errors.Is(e, x) for each error inside the variadic argument slice (fmt.Errorf %w).
func (ex *Exec) wrapFacts(st *State, e Val, variadic Val) {
	// variadic is []any; elements are interface values stored in memory M|interface
	sl, ok := variadic.T.Underlying().(*types.Slice)
	if !ok {
		return
	}
	E := sl.Elem()
	ls := flatten(E)
	if len(ls) != 2 {
		return
	}
	f := ex.declFun("errIs", []string{sInt, sInt, sInt, sInt}, sBool)
	// completeness: the new error matches a target only through one of its arguments
	only := []string{app("bvsgt", variadic.L[2], bvLit(4, 64))}
	for i := 0; i < 4; i++ {
		idx := bvLit(uint64(i), 64)
		el := ex.loadElem(st, E, variadic.L[0], app("bvadd", variadic.L[1], idx))
		inRange := app("bvslt", idx, variadic.L[2])
		isErrTag := not(eq(el.L[0], "0"))
		ex.assume(st.pc, implies(and(inRange, isErrTag), app(f, e.L[0], e.L[1], el.L[0], el.L[1])))
		only = append(only, and(inRange, isErrTag, or(and(eq(el.L[0], "qt0"), eq(el.L[1], "qt1")), app(f, el.L[0], el.L[1], "qt0", "qt1"))))
	}
	// guarded by the path condition: allocations in exclusive branches may share a reference term
	ex.emit("(assert (=> " + st.pc + " (forall ((qt0 Int) (qt1 Int)) (! (=> " + app(f, e.L[0], e.L[1], "qt0", "qt1") + " " + or(only...) + ") :pattern (" + app(f, e.L[0], e.L[1], "qt0", "qt1") + ")))))")
}

// cryptoEvent lets contracts constrain the exact arguments handed to a primitive (callsite clauses).
func (ex *Exec) cryptoEvent(fr *Frame, st *State, name string, c *callCtx) {
	ex.checkCallSites(fr, st, name, c.args, c.pos)
}

// lockEvent is the hook for lock-invariant reasoning.
func (ex *Exec) lockEvent(fr *Frame, st *State, c *callCtx, t *target, acquire bool) {
	ex.onLock(fr, st, t, acquire, c.pos)
}


// poolOf finds the pool contract of the receiver of a sync.Pool method call (a struct field of type sync.Pool).
func (ex *Exec) poolOf(fr *Frame, st *State, c *callCtx) (*PoolContract, string, types.Type) {
	if len(c.argVals) == 0 {
		return nil, "", nil
	}
	fa, ok := c.argVals[0].(*ssa.FieldAddr)
	if !ok {
		return nil, "", nil
	}
	ST := fa.X.Type().Underlying().(*types.Pointer).Elem()
	f := ST.Underlying().(*types.Struct).Field(fa.Field)
	pc := ex.C.Pools[typeContractKey(ST)+"."+f.Name()]
	if pc == nil {
		return nil, "", nil
	}
	owner := ex.value(fr, st, fa.X)
	return pc, owner.L[0], ST
}


// storeDecoded fills *ref (a value of type T) with unconstrained decoded content: scalar fields are arbitrary,
// slices and nested pointers point to fresh memory (a decoder never aliases existing objects).
func (ex *Exec) storeDecoded(st *State, T types.Type, ref string) {
	v := ex.freshVal("decoded", T)
	// references inside the decoded value are fresh allocations
	ls := flatten(T)
	for i, l := range ls {
		if l.Sort == sInt && !strings.HasSuffix(l.Path, ".t") {
			nr := ex.newRef(st, "decoded"+l.Path)
			isNil := ex.fresh("decnil", sBool)
			v.L[i] = ite(isNil, "0", nr)
		}
	}
	savedActive := ex.modActive
	if ex.isFreshTerm(ref) {
		ex.modActive = false
	}
	ex.storeObj(st, T, ref, v)
	ex.modActive = savedActive
}


// containsTerm: "x is an element of slice s" as a function of the slice contents (scalar elements).
func (ex *Exec) containsTerm(st *State, s Val, x Val) string {
	sl, ok := s.T.Underlying().(*types.Slice)
	if !ok {
		return ex.fresh("contains", sBool)
	}
	E := sl.Elem()
	ls := flatten(E)
	if len(ls) != 1 || len(x.L) != 1 {
		return ex.fresh("contains", sBool)
	}
	k := memKey(E, ls[0], 1)
	srt := sArr(sInt, sArr(bv64, ls[0].Sort))
	mem := sel(ex.heapGet(st, k, srt), s.L[0])
	f := ex.declFun("uf|contains|"+sortKey(ls[0].Sort), []string{sArr(bv64, ls[0].Sort), bv64, bv64, ls[0].Sort}, sBool)
	return app(f, mem, s.L[1], s.L[2], x.L[0])
}


// crashCheck: the crash invariants of the function under verification must hold in the file system state fsTerm
// that a crash inside the current effectful call can leave behind.
func (ex *Exec) crashCheck(fr *Frame, st *State, fsTerm string, pos token.Pos, why string) {
	root := ex.rootFrame
	if root == nil || root.ct == nil || len(root.ct.CrashInvs) == 0 {
		return
	}
	cs := st.clone()
	cs.heap["FS|c"] = fsTerm
	vars := map[string]Val{}
	for k, v := range root.params {
		vars[k] = v
	}
	for k, v := range ex.ghostVars {
		vars[k] = v
	}
	for _, cl := range root.ct.CrashInvs {
		en := ex.newEnv(root, cs, ex.preState, vars)
		t, err := en.evalBool(cl.E)
		if err != nil {
			ex.errors = append(ex.errors, fmt.Sprintf("%s: crash invariant: %v", cl.Line, err))
			continue
		}
		o := ex.oblige(fr, st, "crash", cl.Label, t, pos, "if the process dies here ("+why+") the crash invariant "+cl.Src+" must hold: "+ex.srcLine(pos))
		if o != nil {
			o.Props = cl.Props
		}
	}
}
