package main

import (
	"fmt"
	"go/token"
	"go/types"
	"sort"
	"strings"

	"golang.org/x/tools/go/ssa"
)

// Structural cancellation rules for worker functions (functions that receive a *mgr.WorkerCtx), C20:
//   no-blocking-send:  a worker never performs a channel send outside a select statement
//                      (it could block forever once the receiving module has stopped);
//   select-has-done:   every select inside a loop of a worker has a case that receives from a Done() channel.
// These are syntactic obligations over the SSA of the current tree; they are reported as "structural", not as SMT proofs.
func structuralWorkerObligations(P *Program) *FuncResult {
	res := &FuncResult{Key: "structural/workers"}
	var fns []*ssa.Function
	for f := range P.allFns {
		if !isModFn(f) || len(f.Blocks) == 0 || P.isTestFile(f.Pos()) {
			continue
		}
		root := f
		for root.Parent() != nil {
			root = root.Parent()
		}
		if P.isTestFile(root.Pos()) || root.Pkg == nil || !isModulePkg(root.Pkg.Pkg) {
			continue
		}
		if !takesWorkerCtx(f) {
			continue
		}
		fns = append(fns, f)
	}
	sort.Slice(fns, func(i, j int) bool { return funcKey(fns[i]) < funcKey(fns[j]) })
	for _, f := range fns {
		key := funcKey(f)
		loops := findLoops(f)
		inLoop := func(b *ssa.BasicBlock) bool {
			for _, l := range loops {
				if l.blocks[b] {
					return true
				}
			}
			return false
		}
		nSend, nSel := 0, 0
		for _, b := range f.Blocks {
			for _, in := range b.Instrs {
				switch in := in.(type) {
				case *ssa.Send:
					nSend++
					res.Obls = append(res.Obls, &Obligation{Name: fmt.Sprintf("%s/structural:no-blocking-send#%d", key, nSend), Kind: "structural", Func: key,
						Pos: P.pos(in.Pos()), Static: true, Status: "unknown", Solver: "ssa-scan",
						Detail: "a worker performs a blocking channel send outside a select (it can block forever after the receiver stopped): " + P.sourceLineAt(in.Pos()),
						Raw: "blocking send in worker " + key + " at " + P.pos(in.Pos())})
				case *ssa.Select:
					if !in.Blocking || !inLoop(b) {
						continue
					}
					nSel++
					o := &Obligation{Name: fmt.Sprintf("%s/structural:select-has-done#%d", key, nSel), Kind: "structural", Func: key,
						Pos: P.pos(in.Pos()), Static: true, Solver: "ssa-scan",
						Detail: "a select inside a worker loop has a case receiving from a Done() channel: " + P.sourceLineAt(in.Pos())}
					if selectHasDone(in) {
						o.Status = "proved"
					} else {
						o.Status = "unknown"
						o.Raw = "select without Done() case in worker " + key + " at " + P.pos(in.Pos())
					}
					res.Obls = append(res.Obls, o)
				}
			}
		}
		if nSend == 0 {
			res.Obls = append(res.Obls, &Obligation{Name: key + "/structural:no-blocking-send", Kind: "structural", Func: key, Pos: P.pos(f.Pos()),
				Static: true, Status: "proved", Solver: "ssa-scan", Detail: "worker " + key + " contains no channel send outside a select"})
		}
	}
	return res
}

func takesWorkerCtx(f *ssa.Function) bool {
	for _, p := range f.Params {
		if pt, ok := p.Type().Underlying().(*types.Pointer); ok {
			if n, ok := types.Unalias(pt.Elem()).(*types.Named); ok && n.Obj().Name() == "WorkerCtx" && n.Obj().Pkg() != nil && strings.HasSuffix(n.Obj().Pkg().Path(), "/mgr") {
				return true
			}
		}
	}
	return false
}

func selectHasDone(sel *ssa.Select) bool {
	for _, st := range sel.States {
		if st.Dir == types.RecvOnly && isDoneChan(st.Chan, 0) {
			return true
		}
	}
	return false
}

func isDoneCall(c *ssa.Call) bool {
	if c.Call.IsInvoke() {
		return c.Call.Method.Name() == "Done"
	}
	sc := c.Call.StaticCallee()
	return sc != nil && sc.Name() == "Done"
}

// isDoneChan: the channel value comes from a Done() call (directly or through a local variable).
func isDoneChan(v ssa.Value, depth int) bool {
	if depth > 4 {
		return false
	}
	switch x := v.(type) {
	case *ssa.Call:
		return isDoneCall(x)
	case *ssa.ChangeType:
		return isDoneChan(x.X, depth+1)
	case *ssa.UnOp:
		if x.Op != token.MUL {
			return false
		}
		a, ok := x.X.(*ssa.Alloc)
		if !ok {
			return false
		}
		refs := a.Referrers()
		if refs == nil {
			return false
		}
		for _, r := range *refs {
			if s, ok := r.(*ssa.Store); ok && s.Addr == a && isDoneChan(s.Val, depth+1) {
				return true
			}
		}
	}
	return false
}

func (P *Program) sourceLineAt(pos token.Pos) string {
	p := P.Fset.Position(pos)
	return P.sourceLine(p.Filename, p.Line)
}

// structuralFrozenObligations checks "frozen <fields> by <constructors>" declarations: over the non-test module
// code, a field store (or a whole-object store) to a frozen field occurs only inside one of the declared
// constructor functions (or their function literals). Stores through reflection, unsafe or decoders are not seen.
func structuralFrozenObligations(P *Program, C *Contracts) *FuncResult {
	res := &FuncResult{Key: "structural/frozen-fields"}
	type decl struct {
		tk    string
		field string
		ctors []string
	}
	var decls []decl
	var tks []string
	for tk := range C.Types {
		tks = append(tks, tk)
	}
	sort.Strings(tks)
	for _, tk := range tks {
		for _, fd := range C.Types[tk].Frozen {
			for _, f := range fd.Fields {
				decls = append(decls, decl{tk, f, fd.Ctors})
			}
		}
	}
	if len(decls) == 0 {
		return nil
	}
	var fns []*ssa.Function
	for f := range P.allFns {
		if !isModFn(f) || len(f.Blocks) == 0 || P.isTestFile(f.Pos()) {
			continue
		}
		root := f
		for root.Parent() != nil {
			root = root.Parent()
		}
		if P.isTestFile(root.Pos()) || root.Pkg == nil || !isModulePkg(root.Pkg.Pkg) {
			continue
		}
		fns = append(fns, f)
	}
	sort.Slice(fns, func(i, j int) bool { return funcKey(fns[i]) < funcKey(fns[j]) })
	isCtor := func(key string, ctors []string) bool {
		for _, c := range ctors {
			if key == c || strings.HasPrefix(key, c+"$") {
				return true
			}
		}
		return false
	}
	for _, d := range decls {
		var bad, notFresh []string
		found := false
		for _, f := range fns {
			key := funcKey(f)
			for _, b := range f.Blocks {
				for _, in := range b.Instrs {
					st, ok := in.(*ssa.Store)
					if !ok {
						continue
					}
					hit := false
					switch a := st.Addr.(type) {
					case *ssa.FieldAddr:
						pt, ok := a.X.Type().Underlying().(*types.Pointer)
						if !ok {
							continue
						}
						if typeContractKey(pt.Elem()) != d.tk {
							continue
						}
						S, ok := pt.Elem().Underlying().(*types.Struct)
						if ok && S.Field(a.Field).Name() == d.field {
							hit = true
							if !ownAllocation(a.X) {
								notFresh = append(notFresh, key+" at "+P.pos(in.Pos()))
							}
						}
					default:
						// whole-object store  *p = T{...}
						if pt, ok := st.Addr.Type().Underlying().(*types.Pointer); ok && typeContractKey(pt.Elem()) == d.tk {
							if _, isAlloc := st.Addr.(*ssa.Alloc); !isAlloc {
								hit = true
							}
						}
					}
					if !hit {
						continue
					}
					found = true
					if !isCtor(key, d.ctors) {
						bad = append(bad, key+" at "+P.pos(in.Pos()))
					}
				}
			}
		}
		o := &Obligation{Name: fmt.Sprintf("structural:frozen:%s.%s", d.tk, d.field), Kind: "structural", Func: d.tk, Static: true, Solver: "ssa-scan",
			Detail: "field " + d.tk + "." + d.field + " is assigned only by " + strings.Join(dedupe(d.ctors), ", ")}
		switch {
		case len(bad) > 0:
			o.Status = "unknown"
			o.Raw = "frozen field " + d.tk + "." + d.field + " is assigned outside its constructors: " + strings.Join(bad, "; ")
		case len(notFresh) > 0:
			o.Status = "unknown"
			o.Raw = "frozen field " + d.tk + "." + d.field + " is assigned on an object the function did not allocate itself: " + strings.Join(notFresh, "; ")
		case !found:
			o.Status = "unknown"
			o.Raw = "frozen field " + d.tk + "." + d.field + ": no assignment found at all (declaration does not match the code)"
		default:
			o.Status = "proved"
		}
		res.Obls = append(res.Obls, o)
	}
	return res
}

func dedupe(xs []string) []string {
	seen := map[string]bool{}
	var out []string
	for _, x := range xs {
		if !seen[x] {
			seen[x] = true
			out = append(out, x)
		}
	}
	return out
}


// ownAllocation: the address is (a field of a field of ...) an object allocated by the same function.
func ownAllocation(v ssa.Value) bool {
	for {
		switch x := v.(type) {
		case *ssa.Alloc:
			return true
		case *ssa.FieldAddr:
			v = x.X
		case *ssa.UnOp:
			// naive form: the pointer is loaded from a local variable that was assigned the allocation once
			a, ok := x.X.(*ssa.Alloc)
			if !ok || x.Op != token.MUL || a.Referrers() == nil {
				return false
			}
			var stored ssa.Value
			n := 0
			for _, r := range *a.Referrers() {
				if st, ok := r.(*ssa.Store); ok && st.Addr == ssa.Value(a) {
					stored = st.Val
					n++
				}
			}
			if n != 1 {
				return false
			}
			if _, ok := stored.(*ssa.Alloc); ok {
				return true
			}
			return false
		default:
			return false
		}
	}
}

// deterministicLibrary: library functions whose results depend only on their (value) arguments.
var deterministicLibrary = map[string]bool{
	"strings.ToLower": true, "strings.ToUpper": true, "strings.TrimSuffix": true, "strings.TrimPrefix": true,
	"strings.HasSuffix": true, "strings.HasPrefix": true, "strings.CutSuffix": true, "strings.CutPrefix": true,
	"golang.org/x/net/idna.ToASCII": true, "(*regexp.Regexp).MatchString": true,
}

// structuralFunctionObligations justifies "option function" (the results are a mathematical function of the
// arguments, assumed at every call): the body takes only basic-typed values, touches no heap except its own
// locals and package variables that are assigned only during package initialisation, and calls only functions
// of the same kind or library functions known to be deterministic.
func structuralFunctionObligations(P *Program, C *Contracts) *FuncResult {
	var keys []string
	for k, ct := range C.Funcs {
		if ct.Function {
			keys = append(keys, k)
		}
	}
	if len(keys) == 0 {
		return nil
	}
	sort.Strings(keys)
	res := &FuncResult{Key: "structural/functions"}
	initOnly := func(g *ssa.Global) bool {
		for f := range P.allFns {
			if f.Pkg != g.Pkg || len(f.Blocks) == 0 {
				continue
			}
			isInit := f.Name() == "init" || strings.HasPrefix(f.Name(), "init#")
			for _, b := range f.Blocks {
				for _, in := range b.Instrs {
					if st, ok := in.(*ssa.Store); ok && st.Addr == ssa.Value(g) && !isInit {
						return false
					}
				}
			}
		}
		return true
	}
	for _, k := range keys {
		o := &Obligation{Name: "structural:function:" + k, Kind: "structural", Func: k, Static: true, Solver: "ssa-scan",
			Detail: k + " computes its results from its arguments alone (no state read or written)"}
		fn := P.Funcs[k]
		var bad []string
		if fn == nil || len(fn.Blocks) == 0 {
			bad = append(bad, "no body")
		} else {
			if fn.Signature.Recv() != nil {
				bad = append(bad, "has a receiver")
			}
			for _, p := range fn.Params {
				if _, ok := p.Type().Underlying().(*types.Basic); !ok {
					bad = append(bad, "parameter "+p.Name()+" is not of a basic type")
				}
			}
			for _, b := range fn.Blocks {
				for _, in := range b.Instrs {
					why := ""
					switch x := in.(type) {
					case *ssa.Alloc:
						if x.Heap {
							why = "escaping allocation"
						}
					case *ssa.Store:
						if _, ok := x.Addr.(*ssa.Alloc); !ok {
							why = "store outside its own locals"
						}
					case *ssa.UnOp:
						if x.Op == token.MUL {
							switch a := x.X.(type) {
							case *ssa.Alloc:
							case *ssa.Global:
								if !initOnly(a) {
									why = "reads package variable " + a.Name() + ", which is assigned outside init"
								}
							default:
								why = "load through a pointer"
							}
						} else if x.Op == token.ARROW {
							why = "channel receive"
						}
					case *ssa.Call:
						cal := x.Call.StaticCallee()
						switch {
						case x.Call.IsInvoke() || (cal == nil && x.Call.Value != nil && func() bool { _, isB := x.Call.Value.(*ssa.Builtin); return !isB }()):
							why = "dynamic call"
						case cal != nil:
							ck := funcKey(cal)
							lk := cal.String()
							if ct := C.Funcs[ck]; !(ct != nil && ct.Function) && !deterministicLibrary[lk] {
								why = "calls " + lk
							}
						}
					case *ssa.BinOp, *ssa.Phi, *ssa.If, *ssa.Jump, *ssa.Return, *ssa.Extract, *ssa.Convert, *ssa.ChangeType,
						*ssa.Slice, *ssa.Index, *ssa.Lookup, *ssa.DebugRef, *ssa.RunDefers:
					default:
						why = fmt.Sprintf("%T", in)
					}
					if why != "" {
						bad = append(bad, why+" at "+P.pos(in.Pos()))
					}
				}
			}
		}
		if len(bad) > 0 {
			o.Status = "unknown"
			o.Raw = k + " is declared a function of its arguments, but: " + strings.Join(dedupe(bad), "; ")
		} else {
			o.Status = "proved"
		}
		res.Obls = append(res.Obls, o)
	}
	return res
}
