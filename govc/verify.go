package main

import (
	"regexp"
	"fmt"
	"go/token"
	"go/types"
	"os"
	"sort"
	"strings"
	"sync"
	"time"

	"golang.org/x/tools/go/ssa"
)

var basePreamble = []string{
	"(set-option :produce-models true)",
	"(set-logic ALL)",
	"(declare-sort Str 0)",
	"(declare-sort Opq 0)",
	"(declare-fun strlen (Str) (_ BitVec 64))",
	"(declare-fun strid (Str) Int)",
	"(declare-fun str_bytes (Str) (Array (_ BitVec 64) (_ BitVec 8)))",
	"(define-fun str_at ((s Str) (i (_ BitVec 64))) (_ BitVec 8) (select (str_bytes s) i))",
	"(declare-fun str_sub (Str (_ BitVec 64) (_ BitVec 64)) Str)",
	"(declare-fun str_cat (Str Str) Str)",
	"(declare-const str_empty Str)",
	"(assert (= (strlen str_empty) #x0000000000000000))",
	"(assert (= (strid str_empty) 0))",
	"(declare-const opq_zero Opq)",
}

// FuncResult is the outcome of verifying one function.
type FuncResult struct {
	Key      string
	Obls     []*Obligation
	Notes    []string
	Trusted  []string
	Assumed  []string
	Inlined  []string
	Errors   []string
	Seconds  float64
	HasCt    bool
	Skipped  string
}

type loopState struct {
	headSt   *State
	variants []string
}

// verifyFunction generates and returns the obligations of fn (not yet solved).
func verifyFunction(P *Program, C *Contracts, fn *ssa.Function, opts *Options) (res *FuncResult, ex *Exec) {
	res = &FuncResult{Key: funcKey(fn)}
	defer func() {
		if r := recover(); r != nil {
			if ee, ok := r.(*evalError); ok {
				res.Errors = append(res.Errors, "contract error: "+ee.msg)
				return
			}
			res.Errors = append(res.Errors, fmt.Sprintf("generator panic: %v", r))
			if os.Getenv("GOVC_DEBUG") != "" {
				panic(r)
			}
		}
	}()
	dry := newExec(P, C, fn, opts)
	dry.dry = true
	dry.runRoot()
	ex = newExec(P, C, fn, opts)
	ex.seeded = dry.universe
	for k, v := range dry.universe {
		ex.universe[k] = v
	}
	ex.runRoot()
	res.Obls = ex.obls
	res.Errors = append(res.Errors, ex.errors...)
	res.HasCt = C.Funcs[res.Key] != nil
	if ct := C.Funcs[res.Key]; ct != nil && ct.HasCallers {
		res.Obls = append(res.Obls, callersObligation(P, fn, ct))
	}
	for n := range ex.notes {
		res.Notes = append(res.Notes, n)
	}
	for n := range ex.trusted {
		res.Trusted = append(res.Trusted, n)
	}
	for n := range ex.assumed {
		res.Assumed = append(res.Assumed, n)
	}
	for n := range ex.inlined {
		res.Inlined = append(res.Inlined, n)
	}
	sort.Strings(res.Notes)
	sort.Strings(res.Trusted)
	sort.Strings(res.Assumed)
	sort.Strings(res.Inlined)
	return res, ex
}

func (ex *Exec) newEnv(fr *Frame, st, old *State, vars map[string]Val) *Env {
	var pkg *types.Package
	if fr != nil && fr.fn != nil {
		if fr.fn.Pkg != nil {
			pkg = fr.fn.Pkg.Pkg
		} else if fr.fn.Parent() != nil && fr.fn.Parent().Pkg != nil {
			pkg = fr.fn.Parent().Pkg.Pkg
		}
	}
	nv := map[string]Val{}
	for k, v := range vars {
		nv[k] = v
	}
	return &Env{ex: ex, fr: fr, st: st, old: old, vars: nv, pkg: pkg}
}

// runRoot executes the root function under its contract.
func (ex *Exec) runRoot() {
	fn := ex.root
	ct := ex.C.Funcs[ex.rootKey]
	ex.preamble = append([]string{}, basePreamble...)
	st := &State{pc: "true", vars: map[*ssa.Alloc]Val{}, heap: map[string]string{}, defers: map[int][]deferred{}}
	st.allocCtr = ex.fresh("alloc0", sInt)
	ex.emit("(assert (> " + st.allocCtr + " 0))")
	ex.frameCtr++
	fr := &Frame{id: ex.frameCtr, fn: fn, vals: map[ssa.Value]Val{}, isRoot: true, ct: ct,
		regs: map[*ssa.Alloc]bool{}, tupleClos: map[ssa.Value][]*Closure{}, rangeOf: map[ssa.Value]ssa.Value{}, params: map[string]Val{}}
	ex.rootFrame = fr
	for _, b := range fn.Blocks {
		for _, in := range b.Instrs {
			if a, ok := in.(*ssa.Alloc); ok && registerLike(a) {
				fr.regs[a] = true
			}
		}
	}
	for _, p := range fn.Params {
		v := ex.freshVal("in."+p.Name(), p.Type())
		fr.vals[p] = v
		fr.params[p.Name()] = v
		ex.assumeAllocated(st, v)
		ex.inputs = append(ex.inputs, inputVar{Name: p.Name(), V: v})
	}
	// methods are verified for non-nil pointer receivers; callers are checked for that at non-inlined calls
	if recv := fn.Signature.Recv(); recv != nil && len(fn.Params) > 0 && (ct == nil || !ct.NilRecv) {
		if _, isPtr := recv.Type().Underlying().(*types.Pointer); isPtr {
			ex.emit("(assert " + not(eq(fr.vals[fn.Params[0]].L[0], "0")) + ")")
		}
	}
	var fvRefs []string
	for _, fv := range fn.FreeVars {
		v := ex.freshVal("fv."+fv.Name(), fv.Type())
		fr.vals[fv] = v
		ex.assumeAllocated(st, v)
		// captured variables are distinct, existing cells of the enclosing function
		if len(v.L) == 1 {
			ex.emit("(assert (> " + v.L[0] + " 0))")
			for _, o := range fvRefs {
				ex.emit("(assert " + not(eq(v.L[0], o)) + ")")
			}
			fvRefs = append(fvRefs, v.L[0])
		}
	}
	// "called(<callee>)" in a clause: a flag per named callee, false on entry, set at every call of it
	if ct != nil {
		cls := append(append([]Clause{}, ct.Ensures...), ct.AtExit...)
		for _, cs := range ct.CallSites {
			cls = append(cls, cs.Clause)
		}
		for _, cl := range cls {
			for _, mm := range calledRe.FindAllStringSubmatch(cl.Src, -1) {
				ex.heapSet(st, "G|called|"+mm[1], sBool, "false")
			}
		}
	}
	pre := st.clone()
	ex.preState = pre
	// type invariants of the inputs
	if ct == nil || !ct.NoInv {
		for _, p := range fn.Params {
			ex.assumeTypeInv(fr, st, fr.vals[p])
		}
	}
	if ct != nil {
		for _, c := range ct.Requires {
			en := ex.newEnv(fr, st, pre, fr.params)
			t, err := en.evalBool(c.E)
			if err != nil {
				ex.errors = append(ex.errors, fmt.Sprintf("%s: requires %s: %v", c.Line, c.Label, err))
				continue
			}
			ex.emit("(assert " + t + ")")
		}
	}
	*pre = *st.clone()
	if ct != nil && ct.HasMod && !ct.Trusted {
		en := ex.newEnv(fr, pre, pre, fr.params)
		for _, m := range ct.Modifies {
			ex.modAllowed = append(ex.modAllowed, ex.modLocs(en, m)...)
		}
		// "havoc K": callers forget K at a call; for the body K is therefore part of its frame
		for _, h := range ct.Havoc {
			if h != "" {
				ex.modAllowed = append(ex.modAllowed, modLoc{kind: "anykey", sub: h})
			}
		}
		for _, gu := range ct.Updates {
			var s *ESel
			switch l := gu.LHS.(type) {
			case *ESel:
				s = l
			case *EIndex:
				s, _ = l.X.(*ESel)
			}
			if s != nil {
				ex.modAllowed = append(ex.modAllowed, ex.modLocs(en, s)...)
			}
		}
		ex.modActive = true
	}
	// frame of an interface method this function implements: its writes must stay within it
	if (ct == nil || !ct.Trusted) && len(fn.Params) > 0 {
		for _, ict := range ex.ifaceContractsFor(fn) {
			if !ict.HasMod {
				continue
			}
			vars := map[string]Val{"recv": fr.params[fn.Params[0].Name()]}
			for i, p := range fn.Params[1:] {
				vars[fmt.Sprintf("arg%d", i)] = fr.params[p.Name()]
			}
			en := ex.newEnv(fr, pre, pre, vars)
			for _, m := range ict.Modifies {
				ex.modAllowed = append(ex.modAllowed, ex.modLocs(en, m)...)
			}
			ex.modActive = true
		}
	}
	if ct != nil && ct.NoSafety {
		// "option nosafety": index, nil, conversion and library panic conditions are assumed, not proved, in this function
		ex.opts.Safety = false
		ex.note("option nosafety: the safety conditions of %s are assumed, not proved", funcKey(fn))
	}
	if ct != nil && ct.ClausesOnly {
		ex.assumeRequires = true
		ex.note("option clausesonly: the preconditions of the callees of %s are assumed, not proved", funcKey(fn))
	}
	ex.cover(fr, st, "entry", fn.Pos())
	ex.runBody(fr, st)
	ex.finishRoot(fr, pre)
}

func (ex *Exec) assumeAllocated(st *State, v Val) {
	ls := flatten(v.T)
	for i, l := range ls {
		if l.Sort == sInt && !strings.HasSuffix(l.Path, ".t") {
			ex.emit("(assert (<= " + v.L[i] + " " + st.allocCtr + "))")
		}
	}
}

// typeInvTerm returns Inv(v) for a pointer (or unique-impl interface) value, or "".
func (ex *Exec) typeInvTerm(fr *Frame, st *State, v Val) (string, []Clause) {
	if ex.invDepth > 0 {
		return "", nil
	}
	T := v.T
	ref := ""
	nonnil := ""
	switch t := T.Underlying().(type) {
	case *types.Pointer:
		T = t.Elem()
		ref = v.L[0]
		nonnil = not(eq(ref, "0"))
	case *types.Interface:
		impl := ex.uniqueImpl(T)
		if impl == nil || len(v.L) != 2 {
			return "", nil
		}
		T = impl.Underlying().(*types.Pointer).Elem()
		ref = v.L[1]
		nonnil = and(not(eq(v.L[0], "0")), not(eq(v.L[1], "0")))
	default:
		return "", nil
	}
	tc := ex.C.Types[typeContractKey(T)]
	if tc == nil || len(tc.Invs) == 0 {
		return "", nil
	}
	ex.invDepth++
	defer func() { ex.invDepth-- }()
	var parts []string
	for _, c := range tc.Invs {
		en := ex.newEnv(fr, st, ex.preState, nil)
		en.vars["self"] = Val{T: types.NewPointer(T), L: []string{ref}}
		en.pkg = pkgOfType(T)
		t, err := en.evalBool(c.E)
		if err != nil {
			ex.errors = append(ex.errors, fmt.Sprintf("%s: type invariant %s: %v", c.Line, c.Label, err))
			continue
		}
		parts = append(parts, t)
	}
	return implies(nonnil, and(parts...)), tc.Invs
}

func pkgOfType(T types.Type) *types.Package {
	if n, ok := types.Unalias(T).(*types.Named); ok {
		return n.Obj().Pkg()
	}
	return nil
}

// reassumeRootInvs: after a call that may have changed the heap, the objects the function under verification
// received as parameters satisfy their type invariants again (visible-state discipline: every function checks the
// invariants of all objects it wrote at its exits and of all objects it hands to a callee). Objects this
// function itself has written to are excluded: their invariant may be broken right now.
func (ex *Exec) reassumeRootInvs(st *State) {
	if os.Getenv("GOVC_NO_REASSUME") != "" {
		return
	}
	rf := ex.rootFrame
	if rf == nil || ex.specMode != 0 || ex.invDepth > 0 || (rf.ct != nil && rf.ct.NoInv) {
		return
	}
	// an invariant may relate several objects (a registry and its entries): it is re-assumed only if this function
	// has written to none of the heap locations (field, map or memory keys) the invariant reads
	var cands []Val
	for _, p := range rf.fn.Params {
		if v, ok := rf.vals[p]; ok {
			cands = append(cands, v)
		}
	}
	// registers holding objects obtained earlier (results of calls, heap loads)
	var regs []ssa.Value
	for k := range rf.vals {
		if _, isParam := k.(*ssa.Parameter); !isParam {
			regs = append(regs, k)
		}
	}
	sort.Slice(regs, func(a, b int) bool { return regs[a].Name() < regs[b].Name() })
	for _, k := range regs {
		cands = append(cands, rf.vals[k])
	}
	seen := map[string]bool{}
	n := 0
	for _, v := range cands {
		if len(v.L) == 0 || len(v.L) > 2 || v.T == nil {
			continue
		}
		ref := v.L[len(v.L)-1]
		if seen[ref] || ex.isFreshTerm(ref) || ref == "0" {
			continue
		}
		ex.keyLog = map[string]bool{}
		t, _ := ex.typeInvTerm(rf, st, v)
		reads := ex.keyLog
		ex.keyLog = nil
		if t == "" || t == "true" {
			continue
		}
		touched := false
		for k := range reads {
			if ex.ownWritten[k] {
				touched = true
				break
			}
		}
		if touched {
			ex.note("invariant of %s not re-assumed after a call: this function wrote to a location it reads", typeKey(v.T))
			continue
		}
		seen[ref] = true
		if n++; n > 16 {
			break
		}
		ex.assume(st.pc, t)
	}
}

func (ex *Exec) assumeTypeInv(fr *Frame, st *State, v Val) {
	t, _ := ex.typeInvTerm(fr, st, v)
	if t != "" && t != "true" {
		ex.assume(st.pc, t)
	}
}

func (ex *Exec) checkTypeInv(fr *Frame, st *State, v Val, what string, pos token.Pos) {
	ex.checkTypeInvUnder(fr, st, v, what, pos, "true")
}

func (ex *Exec) checkTypeInvUnder(fr *Frame, st *State, v Val, what string, pos token.Pos, under string) {
	T := v.T
	ref := ""
	nonnil := ""
	switch t := T.Underlying().(type) {
	case *types.Pointer:
		T = t.Elem()
		ref = v.L[0]
		nonnil = not(eq(ref, "0"))
	case *types.Interface:
		impl := ex.uniqueImpl(T)
		if impl == nil || len(v.L) != 2 {
			return
		}
		T = impl.Underlying().(*types.Pointer).Elem()
		ref = v.L[1]
		nonnil = and(not(eq(v.L[0], "0")), not(eq(v.L[1], "0")))
	default:
		return
	}
	tc := ex.C.Types[typeContractKey(T)]
	if tc == nil {
		return
	}
	ex.invDepth++
	defer func() { ex.invDepth-- }()
	for _, c := range tc.Invs {
		en := ex.newEnv(fr, st, ex.preState, nil)
		en.vars["self"] = Val{T: types.NewPointer(T), L: []string{ref}}
		en.pkg = pkgOfType(T)
		t, err := en.evalBool(c.E)
		if err != nil {
			ex.errors = append(ex.errors, fmt.Sprintf("%s: type invariant %s: %v", c.Line, c.Label, err))
			continue
		}
		o := ex.oblige(fr, st, "typeinv", tc.Key+"."+c.Label+what, implies(and(under, nonnil), t), pos, "type invariant "+c.Label+" of "+tc.Key+": "+c.Src)
		if o != nil {
			o.Props = c.Props
			o.HasQuant = en.quant
		}
	}
}

// finishRoot checks the exit conditions on the merged return state.
func (ex *Exec) finishRoot(fr *Frame, pre *State) {
	fn := fr.fn
	ct := fr.ct
	if len(fr.rets) == 0 {
		return
	}
	var ins []*State
	for _, r := range fr.rets {
		ins = append(ins, r.st)
	}
	st := ex.merge(fr, nil, ins, nil)
	// merged results
	var results []Val
	for k := 0; k < fn.Signature.Results().Len(); k++ {
		RT := fn.Signature.Results().At(k).Type()
		ls := flatten(RT)
		rv := Val{T: RT}
		for li := range ls {
			var t string
			for ri := len(fr.rets) - 1; ri >= 0; ri-- {
				r := fr.rets[ri]
				if ri == len(fr.rets)-1 {
					t = r.vals[k].L[li]
				} else {
					t = ite(r.st.pc, r.vals[k].L[li], t)
				}
			}
			rv.L = append(rv.L, ex.def("result", ls[li].Sort, t))
		}
		results = append(results, rv)
	}
	vars := map[string]Val{}
	for k, v := range fr.params {
		vars[k] = v
	}
	for k, rv := range results {
		vars[fmt.Sprintf("result%d", k)] = rv
		if k == 0 {
			vars["result"] = rv
		}
		if n := fn.Signature.Results().At(k).Name(); n != "" && n != "_" {
			vars[n] = rv
		}
	}
	ex.cover(fr, st, "return", fn.Pos())
	// contracts on interface methods this function implements: every implementation owes their postconditions
	ex.checkIfaceEnsures(fr, st, pre, results)
	if ct == nil {
		return
	}
	// verdicts of the primitives called by this function
	vars["sig_ok"], vars["aead_ok"], vars["ctcmp_ok"] = boolVal("false"), boolVal("false"), boolVal("false")
	vars["fs_written"] = Val{T: types.Typ[types.UnsafePointer], L: []string{"(- 2)"}}
	for i := 1; i <= 4; i++ {
		vars[fmt.Sprintf("ctcmp_ok_%d", i)] = boolVal("false") // the i-th constant-time comparison of this run (false if not executed)
	}
	for k, v := range ex.ghostVars {
		vars[k] = v
	}
	// ghost updates
	for _, gu := range ct.Updates {
		ex.applyGhostUpdate(fr, st, pre, vars, gu)
	}
	// vacuity: a call-site clause that constrained no call at all is a contract that no longer applies
	for _, cs := range ct.CallSites {
		if ex.callSiteHits[cs.Label] == 0 && !ex.dry {
			ex.errors = append(ex.errors, fmt.Sprintf("%s: call-site clause %s matched no call of %s", cs.Line, cs.Label, cs.Callee))
		}
	}
	for _, cs := range ct.Cuts {
		if ex.callSiteHits["cut:"+cs.Label] == 0 && !ex.dry {
			ex.errors = append(ex.errors, fmt.Sprintf("%s: proof cut %s matched no call of %s", cs.Line, cs.Label, cs.Callee))
		}
	}
	for _, c := range ct.Ensures {
		en := ex.newEnv(fr, st, pre, vars)
		en.pos = token.NoPos
		t, err := en.evalBool(c.E)
		if err != nil {
			ex.errors = append(ex.errors, fmt.Sprintf("%s: ensures %s: %v", c.Line, c.Label, err))
			continue
		}
		o := ex.oblige(fr, st, "post", c.Label, t, fn.Pos(), "ensures "+c.Src)
		if o != nil {
			o.Props = c.Props
			o.HasQuant = en.quant
		}
	}
	if !ct.NoInv {
		seen := map[string]bool{}
		okCond := "true"
		if ct.ErrBreaks && len(results) > 0 {
			last := results[len(results)-1]
			if len(last.L) == 2 && types.Identical(last.T, errType()) {
				okCond = eq(last.L[0], "0")
			}
		}
		chk := func(v Val, what string) {
			if len(v.L) == 0 || seen[v.L[len(v.L)-1]+typeKey(v.T)] {
				return
			}
			seen[v.L[len(v.L)-1]+typeKey(v.T)] = true
			ex.checkTypeInvUnder(fr, st, v, what, fn.Pos(), okCond)
		}
		for _, p := range fn.Params {
			chk(fr.vals[p], "@"+p.Name())
		}
		for k, rv := range results {
			chk(rv, fmt.Sprintf("@result%d", k))
		}
		for _, sr := range ex.storedRefs {
			if ex.C.Types[typeContractKey(sr.T)] == nil {
				continue
			}
			k := sr.Ref + typeKey(sr.T) + sr.PC
			if seen[k] || seen[sr.Ref+typeKey(types.NewPointer(sr.T))] {
				continue
			}
			if ex.isFreshTerm(sr.Ref) {
				// objects created by this call are checked when they are returned (results); one that is
				// dropped on an error path is unreachable afterwards
				continue
			}
			seen[k] = true
			ex.checkTypeInvUnder(fr, st, Val{T: types.NewPointer(sr.T), L: []string{sr.Ref}}, "@written", fn.Pos(), and(sr.PC, okCond))
		}
	}
}

// applyGhostUpdate performs "update when cond: lhs = rhs".
func (ex *Exec) applyGhostUpdate(fr *Frame, st, pre *State, vars map[string]Val, gu GhostUpdate) {
	ex.applyGhostUpdatePkg(fr, st, pre, vars, gu, nil)
}

func (ex *Exec) applyGhostUpdatePkg(fr *Frame, st, pre *State, vars map[string]Val, gu GhostUpdate, pkg *types.Package) {
	en := ex.newEnv(fr, st, pre, vars)
	if pkg != nil {
		en.pkg = pkg
	}
	cond, err := en.evalBool(gu.Cond)
	if err != nil {
		ex.errors = append(ex.errors, "ghost update: "+err.Error())
		return
	}
	// LHS: x.g  or x.g[k]
	var sel_ *ESel
	var keyE Expr
	switch l := gu.LHS.(type) {
	case *ESel:
		sel_ = l
	case *EIndex:
		s, ok := l.X.(*ESel)
		if !ok {
			ex.errors = append(ex.errors, "ghost update: unsupported left-hand side")
			return
		}
		sel_, keyE = s, l.I
	default:
		ex.errors = append(ex.errors, "ghost update: unsupported left-hand side")
		return
	}
	obj, err := en.evalVal(sel_.X)
	if err != nil {
		ex.errors = append(ex.errors, "ghost update: "+err.Error())
		return
	}
	T := obj.T
	if _, ok := T.Underlying().(*types.Interface); ok && len(obj.L) == 2 {
		// interface with a unique implementation: the ghost field of the payload
		if impl := ex.uniqueImpl(T); impl != nil {
			obj = Val{T: impl, L: []string{obj.L[1]}}
			T = impl
		}
	}
	if p, ok := T.Underlying().(*types.Pointer); ok {
		T = p.Elem()
	}
	tc := ex.C.Types[typeContractKey(T)]
	var gf *GhostField
	if tc != nil {
		for i := range tc.Ghosts {
			if tc.Ghosts[i].Name == sel_.Name {
				gf = &tc.Ghosts[i]
			}
		}
	}
	if gf == nil {
		ex.errors = append(ex.errors, "ghost update: "+sel_.Name+" is not a ghost field")
		return
	}
	savedPkg := en.pkg
	en.pkg = pkgOfType(T)
	GT := en.resolveType(gf.Type)
	en.pkg = savedPkg
	key := fieldKey(T, gf.Name, "")
	ref := obj.L[0]
	if mt, ok := GT.(*types.Map); ok {
		ks, vs := flatten(mt.Key()), flatten(mt.Elem())
		srt := sArr(sInt, sArr(ks[0].Sort, vs[0].Sort))
		arr := ex.heapGet(st, key, srt)
		cur := sel(arr, ref)
		var nv string
		switch {
		case gu.Reset:
			nv = "((as const " + sArr(ks[0].Sort, vs[0].Sort) + ") " + zeroOf(vs[0].Sort) + ")"
		case keyE != nil:
			k, err1 := en.evalVal(keyE)
			v, err2 := en.evalVal(gu.RHS)
			if err1 != nil || err2 != nil {
				ex.errors = append(ex.errors, fmt.Sprintf("ghost update: %v %v", err1, err2))
				return
			}
			k = en.coerce(k, mt.Key())
			v = en.coerce(v, mt.Elem())
			nv = store(cur, k.L[0], v.L[0])
		default:
			v, err := en.evalVal(gu.RHS)
			if err != nil {
				ex.errors = append(ex.errors, "ghost update: "+err.Error())
				return
			}
			nv = v.L[0]
		}
		ex.heapSet(st, key, srt, store(arr, ref, ite(cond, nv, cur)))
		return
	}
	ls := flatten(GT)
	v, err := en.evalVal(gu.RHS)
	if err != nil {
		ex.errors = append(ex.errors, "ghost update: "+err.Error())
		return
	}
	v = en.coerce(v, GT)
	for i, l := range ls {
		k := fieldKey(T, gf.Name, l.Path)
		srt := sArr(sInt, l.Sort)
		arr := ex.heapGet(st, k, srt)
		ex.heapSet(st, k, srt, store(arr, ref, ite(cond, v.L[i], sel(arr, ref))))
	}
}

// ---------- modifies ----------

type modLoc struct {
	sub   string // anykey: substring of the heap key names
	kind  string // field, mem, memrange, all, map, global, anykey
	keys  []string
	ref   string
	base  string
	lo    string // absolute start index (inclusive)
	hi    string // absolute end index (exclusive)
	elemT types.Type
}

// modLocs evaluates a modifies designator in the given state.
func (ex *Exec) modLocs(en *Env, e Expr) (locs []modLoc) {
	defer func() {
		if r := recover(); r != nil {
			if ee, ok := r.(*evalError); ok {
				ex.errors = append(ex.errors, "modifies "+exprString(e)+": "+ee.msg)
				return
			}
			panic(r)
		}
	}()
	ex.noDef++
	defer func() { ex.noDef-- }()
	switch d := e.(type) {
	case *ESel:
		if d.Name == "all" { // x.all: every field of object x
			obj := en.eval(d.X)
			T := obj.T
			if p, ok := T.Underlying().(*types.Pointer); ok {
				T = p.Elem()
			}
			return []modLoc{{kind: "field", keys: ex.structKeys(T), ref: obj.L[0]}}
		}
		ref, T := en.objRef(d.X)
		// ghost?
		if tc := ex.C.Types[typeContractKey(T)]; tc != nil {
			for _, g := range tc.Ghosts {
				if g.Name == d.Name {
					return []modLoc{{kind: "field", keys: []string{fieldKey(T, g.Name, "")}, ref: ref}}
				}
			}
		}
		S, ok := T.Underlying().(*types.Struct)
		if !ok {
			en.fail("modifies: %s is not a struct", typeKey(T))
		}
		_, path, _ := types.LookupFieldOrMethod(T, true, nil, d.Name)
		if path == nil {
			for i := 0; i < S.NumFields(); i++ {
				if S.Field(i).Name() == d.Name {
					path = []int{i}
				}
			}
		}
		if path == nil {
			en.fail("modifies: no field %s", d.Name)
		}
		curT := T
		for pi, idx := range path {
			CS := curT.Underlying().(*types.Struct)
			f := CS.Field(idx)
			if pi == len(path)-1 {
				if _, ok := isPlainStruct(f.Type()); ok {
					return []modLoc{{kind: "field", keys: ex.structKeys(f.Type()), ref: ex.subRef(curT, f.Name(), ref)}}
				}
				var keys []string
				for _, l := range flatten(f.Type()) {
					k := fieldKey(curT, f.Name(), l.Path)
					ex.heapSort(k, sArr(sInt, l.Sort))
					keys = append(keys, k)
				}
				return []modLoc{{kind: "field", keys: keys, ref: ref}}
			}
			// embedded step
			if p, ok := f.Type().Underlying().(*types.Pointer); ok {
				ref = ex.loadField(en.st, curT, f, ref).L[0]
				curT = p.Elem()
			} else {
				ref = ex.subRef(curT, f.Name(), ref)
				curT = f.Type()
			}
		}
	case *ECall:
		if id, ok := d.Fun.(*EIdent); ok && id.Name == "mem" {
			s := en.eval(d.Args[0])
			sl, ok := s.T.Underlying().(*types.Slice)
			if !ok {
				en.fail("mem() needs a slice")
			}
			return []modLoc{{kind: "mem", keys: ex.elemKeys(sl.Elem()), base: s.L[0], elemT: sl.Elem()}}
		}
		if id, ok := d.Fun.(*EIdent); ok && id.Name == "any" {
			// any("F|state."): every heap key whose name contains the text, on any object (coarse frame for other modules' state)
			lit, ok := d.Args[0].(*ELit)
			if !ok {
				en.fail("any() needs a string literal")
			}
			return []modLoc{{kind: "anykey", sub: lit.Text}}
		}
		if id, ok := d.Fun.(*EIdent); ok && id.Name == "mapof" {
			m := en.eval(d.Args[0])
			return []modLoc{{kind: "map", keys: ex.mapKeys(m.T), ref: m.L[0]}}
		}
		if id, ok := d.Fun.(*EIdent); ok && id.Name == "global" {
			name := exprString(d.Args[0])
			var keys []string
			for k := range ex.universe {
				if strings.HasPrefix(k, "G|") && strings.Contains(k, name) {
					keys = append(keys, k)
				}
			}
			return []modLoc{{kind: "global", keys: keys}}
		}
	case *ESlice:
		s := en.eval(d.X)
		sl, ok := s.T.Underlying().(*types.Slice)
		if !ok {
			en.fail("modifies range needs a slice")
		}
		lo, hi := bvLit(0, 64), s.L[2]
		if d.Lo != nil {
			lo = ex.toInt64(en.coerce(en.eval(d.Lo), types.Typ[types.Int]))
		}
		if d.Hi != nil {
			hi = ex.toInt64(en.coerce(en.eval(d.Hi), types.Typ[types.Int]))
		}
		return []modLoc{{kind: "memrange", keys: ex.elemKeys(sl.Elem()), base: s.L[0], lo: app("bvadd", s.L[1], lo), hi: app("bvadd", s.L[1], hi), elemT: sl.Elem()}}
	case *EIndex:
		s := en.eval(d.X)
		if sl, ok := s.T.Underlying().(*types.Slice); ok {
			i := ex.toInt64(en.coerce(en.eval(d.I), types.Typ[types.Int]))
			a := app("bvadd", s.L[1], i)
			return []modLoc{{kind: "memrange", keys: ex.elemKeys(sl.Elem()), base: s.L[0], lo: a, hi: app("bvadd", a, bvLit(1, 64)), elemT: sl.Elem()}}
		}
	}
	en.fail("unsupported modifies designator %s", exprString(e))
	return nil
}

// havocLocs applies a callee's modifies clause at a call site.
func (ex *Exec) havocLocs(st *State, locs []modLoc) {
	for _, l := range locs {
		if l.kind == "anykey" {
			var ks []string
			for _, k := range ex.allKeys() {
				if strings.Contains(k, l.sub) {
					ks = append(ks, k)
				}
			}
			ex.havocKeys(st, ks)
			continue
		}
		for _, k := range l.keys {
			srt := ex.universe[k]
			if srt == "" {
				srt = ex.seeded[k]
			}
			if srt == "" {
				continue
			}
			cur := ex.heapGet(st, k, srt)
			switch l.kind {
			case "field", "map":
				_, el := splitArraySort(srt)
				st.heap[k] = ex.def(k, srt, store(cur, l.ref, ex.fresh(k+"~m", el)))
			case "mem":
				_, el := splitArraySort(srt)
				st.heap[k] = ex.def(k, srt, store(cur, l.base, ex.fresh(k+"~m", el)))
			case "memrange":
				_, el := splitArraySort(srt)
				_, el2 := splitArraySort(el)
				fr := ex.fresh(k+"~m", el)
				old := sel(cur, l.base)
				lo, hi := l.lo, l.hi
				na := ex.bulkArray("mr", el2, func(i string) string {
					return ite(and(app("bvule", lo, i), app("bvult", i, hi)), sel(fr, i), sel(old, i))
				})
				st.heap[k] = ex.def(k, srt, store(cur, l.base, na))
			case "global":
				st.heap[k] = ex.fresh(k+"~m", srt)
			}
		}
	}
}

// checkAssigns proves that only the declared locations changed.
func (ex *Exec) checkAssigns(fr *Frame, st, pre *State, vars map[string]Val, ct *FuncContract) {
	en := ex.newEnv(fr, pre, pre, vars) // designators are evaluated in the pre-state
	var locs []modLoc
	for _, m := range ct.Modifies {
		locs = append(locs, ex.modLocs(en, m)...)
	}
	// ghost fields updated by "update" clauses are implicitly modifiable
	for _, gu := range ct.Updates {
		var s *ESel
		switch l := gu.LHS.(type) {
		case *ESel:
			s = l
		case *EIndex:
			s, _ = l.X.(*ESel)
		}
		if s != nil {
			locs = append(locs, ex.modLocs(en, s)...)
		}
	}
	keys := make([]string, 0, len(st.heap))
	for k := range st.heap {
		keys = append(keys, k)
	}
	sort.Strings(keys)
	for _, k := range keys {
		final := st.heap[k]
		init, ok := pre.heap[k]
		if !ok {
			init = ex.heapInit(k, ex.universe[k])
		}
		if final == init {
			continue
		}
		srt := ex.universe[k]
		var cond string
		switch {
		case strings.HasPrefix(k, "G|"):
			allowed := false
			for _, l := range locs {
				for _, lk := range l.keys {
					if lk == k {
						allowed = true
					}
				}
			}
			if allowed {
				continue
			}
			cond = eq(final, init)
		case strings.HasPrefix(k, "M|"):
			b := ex.fresh("fb", sInt)
			i := ex.fresh("fi", bv64)
			var allow []string
			for _, l := range locs {
				for _, lk := range l.keys {
					if lk != k {
						continue
					}
					switch l.kind {
					case "mem":
						allow = append(allow, eq(b, l.base))
					case "memrange":
						allow = append(allow, and(eq(b, l.base), app("bvule", l.lo, i), app("bvult", i, l.hi)))
					}
				}
			}
			cond = implies(and("(<= "+b+" "+pre.allocCtr+")", "(> "+b+" 0)", not(or(allow...))), eq(sel(sel(final, b), i), sel(sel(init, b), i)))
		default:
			r := ex.fresh("fr", sInt)
			var allow []string
			for _, l := range locs {
				for _, lk := range l.keys {
					if lk == k && (l.kind == "field" || l.kind == "map") {
						allow = append(allow, eq(r, l.ref))
					}
				}
			}
			_ = srt
			// sub-objects of fresh objects are exempt: only objects reachable before the call matter
			cond = implies(and("(<= "+r+" "+pre.allocCtr+")", not(or(allow...)), ex.notFreshPart(r, pre)), eq(sel(final, r), sel(init, r)))
		}
		ex.oblige(fr, st, "assigns", k, cond, fr.fn.Pos(), "only declared locations of "+k+" may change (modifies "+strings.Join(ct.ModSrc, ", ")+")")
	}
}

// notFreshPart: r is not a part (field/element) of an object allocated during the call.
// Parts have negative references; their owner is not tracked, so fresh parts are identified
// through the ghost map written at allocation time.
func (ex *Exec) notFreshPart(r string, pre *State) string {
	if len(ex.freshParts) == 0 {
		return "true"
	}
	var ds []string
	for _, p := range ex.freshParts {
		ds = append(ds, not(eq(r, p)))
	}
	return and(ds...)
}

// ---------- calls by contract ----------

func (ex *Exec) applyContract(fr *Frame, st *State, fn *ssa.Function, ct *FuncContract, args []Val, pos token.Pos) Val {
	key := funcKey(fn)
	if ct.Trusted {
		ex.trusted["contract of "+key+" (option trusted: assumed, its body is not verified)"] = true
	} else {
		ex.assumed["contract of "+key] = true
	}
	pre := st.clone()
	vars := map[string]Val{}
	for i, p := range fn.Params {
		if i < len(args) {
			v := args[i]
			v.T = p.Type()
			vars[p.Name()] = v
		}
	}
	// verdicts of primitives inside the callee are not visible to the caller
	for _, g := range []string{"sig_ok", "aead_ok", "ctcmp_ok", "ctcmp_ok_1", "ctcmp_ok_2", "ctcmp_ok_3", "ctcmp_ok_4"} {
		vars[g] = boolVal(ex.fresh("callee."+g, sBool))
	}
	calleeFr := &Frame{fn: fn, vals: map[ssa.Value]Val{}, regs: map[*ssa.Alloc]bool{}, parent: fr, path: fr.path}
	site := "@call:" + key
	for _, c := range ct.Requires {
		en := ex.newEnv(calleeFr, st, pre, vars)
		en.fr = nil
		en.pkg = fn.Pkg.Pkg
		t, err := en.evalBool(c.E)
		if err != nil {
			ex.errors = append(ex.errors, fmt.Sprintf("%s: requires %s at call in %s: %v", c.Line, c.Label, ex.rootKey, err))
			continue
		}
		lab := c.Label
		if lab == "" {
			lab = "requires"
		}
		if ex.assumeRequires {
			ex.assume(st.pc, t)
			continue
		}
		o := ex.oblige(fr, st, "pre", lab+site, t, pos, "precondition of "+key+": "+c.Src+" at "+ex.srcLine(pos))
		if o != nil {
			o.Props = c.Props
			o.HasQuant = en.quant
		}
	}
	if !ct.NoInv && (fr.ct == nil || !fr.ct.NoInv) {
		for i, p := range fn.Params {
			if i < len(args) {
				v := args[i]
				v.T = p.Type()
				ex.checkTypeInv(fr, st, v, site+"."+p.Name(), pos)
			}
		}
	}
	// caller-side call-site clauses of the root contract
	ex.checkCallSites(fr, st, key, args, pos)
	// effects
	ex.calleeHavoc++
	if ct.HasMod {
		en := ex.newEnv(calleeFr, st, pre, vars)
		en.fr = nil
		en.pkg = fn.Pkg.Pkg
		var locs []modLoc
		for _, m := range ct.Modifies {
			locs = append(locs, ex.modLocs(en, m)...)
		}
		var ulocs []modLoc
		for _, gu := range ct.Updates {
			var s *ESel
			switch l := gu.LHS.(type) {
			case *ESel:
				s = l
			case *EIndex:
				s, _ = l.X.(*ESel)
			}
			if s != nil {
				ulocs = append(ulocs, ex.modLocs(en, s)...)
			}
		}
		// ghost fields named only by update clauses are changed exactly by those updates (not forgotten)
		ex.callAssigns(st, append(append([]modLoc{}, locs...), ulocs...))
		ex.havocLocs(st, locs)
		for _, h := range ct.Havoc {
			var ks []string
			for _, k := range ex.allKeys() {
				if strings.Contains(k, h) {
					ks = append(ks, k)
				}
			}
			ex.havocKeys(st, ks)
		}
	} else if !ct.Pure {
		keys, top := ex.modSet(fn)
		if ex.assignsActive() && (top || len(keys) > 0) {
			// the caller promises a frame but the callee's write set is only known syntactically
			ex.obligeHere(st, "assigns", "callee-without-modifies:"+key, "false", "a function with a modifies clause calls "+key+", whose contract has no modifies clause")
		}
		if top {
			ex.havocAll(st, "callee "+key+" may call unknown functions")
		} else {
			ex.havocKeys(st, keys)
		}
	}
	ex.calleeHavoc--
	st.allocCtr = ex.bumpAlloc(st)
	res := ex.freshVal("res."+fn.Name(), fn.Signature.Results())
	ex.assumeResultFacts(fr, st, fn, res)
	if ct.Function {
		// "option function": every flat component of the result is the same function of the arguments
		for j, l := range flatten(fn.Signature.Results()) {
			ex.assume(st.pc, eq(res.L[j], ex.fnTerm(key, j, l.Sort, args)))
		}
	}
	nres := fn.Signature.Results().Len()
	pos0 := 0
	for k := 0; k < nres; k++ {
		RT := fn.Signature.Results().At(k).Type()
		n := len(flatten(RT))
		rv := Val{T: RT, L: res.L[pos0 : pos0+n]}
		pos0 += n
		vars[fmt.Sprintf("result%d", k)] = rv
		if k == 0 {
			vars["result"] = rv
		}
		if nm := fn.Signature.Results().At(k).Name(); nm != "" && nm != "_" {
			vars[nm] = rv
		}
	}
	// the callee's ghost updates happen at its exit: replay them on the caller's state
	if len(ct.Updates) > 0 {
		savedActive := ex.modActive
		ex.modActive = false
		for _, gu := range ct.Updates {
			ex.applyGhostUpdatePkg(nil, st, pre, vars, gu, fn.Pkg.Pkg)
		}
		ex.modActive = savedActive
	}
	// the callee re-established the type invariants of its arguments and results (in the final state)
	if !ct.NoInv {
		for k := 0; k < nres; k++ {
			ex.assumeTypeInv(fr, st, vars[fmt.Sprintf("result%d", k)])
		}
		okCond := "true"
		if ct.ErrBreaks && nres > 0 {
			last := vars[fmt.Sprintf("result%d", nres-1)]
			if len(last.L) == 2 && types.Identical(last.T, errType()) {
				okCond = eq(last.L[0], "0")
			}
		}
		for i, p := range fn.Params {
			if i < len(args) {
				v := args[i]
				v.T = p.Type()
				if t, _ := ex.typeInvTerm(fr, st, v); t != "" && t != "true" {
					ex.assume(st.pc, implies(okCond, t))
				}
			}
		}
	}
	for _, c := range ct.Ensures {
		en := ex.newEnv(calleeFr, st, pre, vars)
		en.fr = nil
		en.pkg = fn.Pkg.Pkg
		t, err := en.evalBool(c.E)
		if err != nil {
			if strings.Contains(err.Error(), "unknown name") {
				// the clause talks about the callee's local variables: it is proved in the callee and not visible to callers
				continue
			}
			ex.errors = append(ex.errors, fmt.Sprintf("%s: ensures %s at call in %s: %v", c.Line, c.Label, ex.rootKey, err))
			continue
		}
		ex.assume(st.pc, t)
	}
	if nres == 1 {
		res.T = fn.Signature.Results().At(0).Type()
	}
	if !ct.Pure {
		ex.reassumeRootInvs(st)
	}
	return res
}

var calledRe = regexp.MustCompile(`called\("([^"]+)"\)`)

// checkCallSites evaluates "callsite <callee> label: expr" clauses of the root contract.
func (ex *Exec) checkCallSites(fr *Frame, st *State, callee string, args []Val, pos token.Pos) {
	root := ex.rootFrame
	if root == nil || root.ct == nil {
		return
	}
	if ca := root.ct.CutAfter; ca != "" && !ex.cut && (ca == callee || strings.HasSuffix(callee, "."+ca) || strings.HasSuffix(ca, "."+callee)) {
		defer func() {
			ex.cut = true
			ex.note("verified only up to the first call of %s (cutafter): no obligations are generated for the rest of the body", callee)
		}()
	}
	for k := range st.heap {
		if strings.HasPrefix(k, "G|called|") {
			want := strings.TrimPrefix(k, "G|called|")
			if want == callee || strings.HasSuffix(callee, "."+want) || strings.HasSuffix(want, "."+callee) {
				ex.heapSet(st, k, sBool, "true")
			}
		}
	}
	ex.callOrdinal[callee]++
	ord := ex.callOrdinal[callee]
	for _, cs := range root.ct.CallSites {
		want := cs.Callee
		if k := strings.LastIndex(want, "#"); k >= 0 {
			// "callee#n": only the n-th call of callee (in symbolic execution order) is constrained
			if want[k+1:] != fmt.Sprint(ord) {
				continue
			}
			want = want[:k]
		}
		if want != callee && !strings.HasSuffix(want, "."+callee) {
			continue
		}
		vars := map[string]Val{}
		for k, v := range root.params {
			vars[k] = v
		}
		for i, a := range args {
			vars[fmt.Sprintf("arg%d", i)] = a
		}
		vars["sig_ok"], vars["aead_ok"], vars["ctcmp_ok"] = boolVal("false"), boolVal("false"), boolVal("false")
		for k, v := range ex.ghostVars {
			vars[k] = v
		}
		en := ex.newEnv(root, st, ex.preState, vars)
		en.pos = pos
		t, err := en.evalBool(cs.E)
		if err != nil {
			ex.errors = append(ex.errors, fmt.Sprintf("%s: callsite %s: %v", cs.Line, cs.Label, err))
			continue
		}
		o := ex.oblige(fr, st, "pre", cs.Label+"@call:"+callee, t, pos, "call-site condition "+cs.Src+" at "+ex.srcLine(pos))
		if o != nil {
			o.Props = cs.Props
		}
		ex.callSiteHits[cs.Label]++
	}
}

// onLock implements interference havoc for guarded fields (see DESIGN 2.7).
func (ex *Exec) onLock(fr *Frame, st *State, t *target, acquire bool, pos token.Pos) {
	if t.kind != 2 {
		return
	}
	tc := ex.C.Types[typeContractKey(t.S)]
	if tc == nil {
		return
	}
	for _, g := range tc.Guards {
		if g.Lock != t.f.Name() {
			continue
		}
		S := t.S.Underlying().(*types.Struct)
		if acquire {
			savedActive := ex.modActive
			ex.modActive = false // interference is not a write of this function
			defer func() { ex.modActive = savedActive }()
			// another goroutine may have changed the guarded fields: forget them, keep the invariant
			for _, fname := range g.Fields {
				for i := 0; i < S.NumFields(); i++ {
					f := S.Field(i)
					if f.Name() != fname {
						continue
					}
					ex.interfering = true
					ex.storeField(st, t.S, f, t.ref, ex.freshVal("interf."+fname, f.Type()))
					ex.interfering = false
					if mt, ok := f.Type().Underlying().(*types.Map); ok {
						// map contents may have changed as well
						ex.havocKeys(st, ex.mapKeys(f.Type()))
						// whatever the map holds now was allocated before this point
						_, vals, ksort, vl, ok := mapKeyNames(f.Type())
						if ok {
							for i, l := range vl {
								if l.Sort != sInt || strings.HasSuffix(l.Path, ".t") {
									continue
								}
								_ = mt
								arr := ex.heapGet(st, vals[i], sArr(sInt, sArr(ksort, l.Sort)))
								ex.emit("(assert (forall ((qm Int) (qk " + ksort + ")) (! (<= (select (select " + arr + " qm) qk) " + st.allocCtr + ") :pattern ((select (select " + arr + " qm) qk)))))")
							}
						}
					}
				}
			}
			ex.assumeTypeInv(fr, st, Val{T: types.NewPointer(t.S), L: []string{t.ref}})
		} else {
			ex.checkTypeInv(fr, st, Val{T: types.NewPointer(t.S), L: []string{t.ref}}, "@unlock", pos)
		}
	}
}

// ---------- loops ----------

func (ex *Exec) loopClauses(fr *Frame, li *loopInfo) (invs, decs []Clause) {
	ct := fr.ct
	if ct == nil {
		ct = ex.C.Funcs[funcKey(fr.fn)]
	}
	if ct == nil {
		return nil, nil
	}
	for _, c := range ct.Invs {
		if c.Loop == li.ord {
			invs = append(invs, c)
		}
	}
	for _, c := range ct.Decreases {
		if c.Loop == li.ord {
			decs = append(decs, c)
		}
	}
	return
}

func (ex *Exec) loopEnv(fr *Frame, st *State, li *loopInfo) *Env {
	vars := map[string]Val{}
	root := fr
	if root.params != nil {
		for k, v := range root.params {
			vars[k] = v
		}
	} else {
		for _, p := range fr.fn.Params {
			vars[p.Name()] = fr.vals[p]
		}
	}
	en := ex.newEnv(fr, st, ex.preState, vars)
	// the hidden index of this range loop
	if li.head.Comment == "rangeindex.loop" {
		for _, in := range li.head.Instrs {
			if u, ok := in.(*ssa.UnOp); ok && u.Op == token.MUL {
				if a, ok := u.X.(*ssa.Alloc); ok && a.Comment == "rangeindex" {
					if fr.regs[a] {
						if v, ok := st.vars[a]; ok {
							en.vars["rangeindex"] = v
						}
					} else if pv, ok := fr.vals[a]; ok {
						en.vars["rangeindex"] = ex.loadObj(st, a.Type().(*types.Pointer).Elem(), pv.L[0])
					}
				}
				break
			}
		}
	}
	// resolve locals as of the loop header
	if len(li.head.Instrs) > 0 {
		for _, in := range li.head.Instrs {
			if in.Pos().IsValid() {
				en.pos = in.Pos()
				break
			}
		}
	}
	// parameters are spilled to locals in naive form: prefer the current local value over the entry value
	for _, p := range fr.fn.Params {
		delete(en.vars, p.Name())
		_ = p
	}
	for k, v := range vars {
		en.vars["old_"+k] = v
	}
	return en
}

// autoInvTerms: structural facts of the SSA lowering that are checked like user invariants.
// For "for i := range slice" loops the hidden index k satisfies -1 <= k < 2^44.
func (ex *Exec) autoInvTerms(fr *Frame, li *loopInfo, st *State) []string {
	if li.head.Comment != "rangeindex.loop" {
		return nil
	}
	for _, in := range li.head.Instrs {
		if u, ok := in.(*ssa.UnOp); ok && u.Op == token.MUL {
			if a, ok := u.X.(*ssa.Alloc); ok && fr.regs[a] {
				v, ok := st.vars[a]
				if !ok || len(v.L) != 1 {
					return nil
				}
				return []string{and(app("bvsge", v.L[0], "#xffffffffffffffff"), app("bvslt", v.L[0], "#x0000100000000000"))}
			}
			break
		}
	}
	return nil
}

func (ex *Exec) loopHead(fr *Frame, li *loopInfo, cur *State) *State {
	invs, decs := ex.loopClauses(fr, li)
	label := fmt.Sprintf("loop%d", li.ord)
	pos := token.NoPos
	for _, in := range li.head.Instrs {
		if in.Pos().IsValid() {
			pos = in.Pos()
			break
		}
	}
	for _, c := range invs {
		en := ex.loopEnv(fr, cur, li)
		t, err := en.evalBool(c.E)
		if err != nil {
			ex.errors = append(ex.errors, fmt.Sprintf("%s: invariant %s: %v", c.Line, c.Label, err))
			continue
		}
		o := ex.oblige(fr, cur, "inv-entry", label+"."+c.Label, t, pos, "loop invariant holds on entry: "+c.Src)
		if o != nil {
			o.Props = c.Props
			o.HasQuant = en.quant
		}
	}
	for _, t := range ex.autoInvTerms(fr, li, cur) {
		ex.oblige(fr, cur, "inv-entry", label+".auto-rangeindex", t, pos, "hidden range index starts at -1")
	}
	// havoc everything the loop may write
	ns := cur.clone()
	keys, top, regs := ex.loopMods(fr, li)
	if top {
		ex.havocAll(ns, "loop body calls unknown functions")
	} else {
		ex.havocLoopKeys(fr, li, cur, ns, keys, regs)
	}
	if fr.ct != nil && fr == ex.rootFrame {
		// memory the contract asks this loop to forget (replaces an unwieldy bulk-operation term by a fresh array
		// that the loop invariants describe; forgetting is always sound)
		ex.havocKeys(ns, fr.ct.LoopForget[li.ord])
	}
	for _, a := range regs {
		T := a.Type().(*types.Pointer).Elem()
		ns.vars[a] = ex.freshVal("lv."+a.Comment, T)
	}
	ns.allocCtr = ex.bumpAlloc(ns)
	ns.pc = ex.def("pc", sBool, and(cur.pc, ex.fresh("iter", sBool)))
	// parameters keep their type invariants (checked again on the back edge)
	if fr.ct == nil || !fr.ct.NoInv {
		for _, p := range fr.fn.Params {
			ex.assumeTypeInv(fr, ns, fr.vals[p])
		}
	}
	ls := &loopState{headSt: ns}
	for _, t := range ex.autoInvTerms(fr, li, ns) {
		ex.assume(ns.pc, t)
	}
	for _, c := range invs {
		en := ex.loopEnv(fr, ns, li)
		t, err := en.evalBool(c.E)
		if err != nil {
			continue
		}
		ex.assume(ns.pc, t)
	}
	for _, c := range decs {
		en := ex.loopEnv(fr, ns, li)
		v, err := en.evalVal(c.E)
		if err != nil {
			ex.errors = append(ex.errors, fmt.Sprintf("%s: decreases: %v", c.Line, err))
			continue
		}
		v = en.coerce(v, types.Typ[types.Int])
		ls.variants = append(ls.variants, ex.def("variant", bv64, ex.toInt64(v)))
	}
	if fr.loopSt == nil {
		fr.loopSt = map[*loopInfo]*loopState{}
	}
	fr.loopSt[li] = ls
	ex.cover(fr, ns, label, pos)
	return ns
}

func (ex *Exec) loopBack(fr *Frame, li *loopInfo, st *State) {
	invs, decs := ex.loopClauses(fr, li)
	label := fmt.Sprintf("loop%d", li.ord)
	pos := token.NoPos
	for _, in := range li.head.Instrs {
		if in.Pos().IsValid() {
			pos = in.Pos()
			break
		}
	}
	for _, c := range invs {
		en := ex.loopEnv(fr, st, li)
		t, err := en.evalBool(c.E)
		if err != nil {
			ex.errors = append(ex.errors, fmt.Sprintf("%s: invariant %s: %v", c.Line, c.Label, err))
			continue
		}
		o := ex.oblige(fr, st, "inv-pres", label+"."+c.Label, t, pos, "loop invariant is preserved: "+c.Src)
		if o != nil {
			o.Props = c.Props
			o.HasQuant = en.quant
		}
	}
	if fr.ct == nil || !fr.ct.NoInv {
		for _, p := range fr.fn.Params {
			ex.checkTypeInv(fr, st, fr.vals[p], "@"+label+"."+p.Name(), pos)
		}
	}
	for _, t := range ex.autoInvTerms(fr, li, st) {
		ex.oblige(fr, st, "inv-pres", label+".auto-rangeindex", t, pos, "hidden range index stays within -1..len")
	}
	ls := fr.loopSt[li]
	for i, c := range decs {
		if ls == nil || i >= len(ls.variants) {
			break
		}
		en := ex.loopEnv(fr, st, li)
		v, err := en.evalVal(c.E)
		if err != nil {
			continue
		}
		v = en.coerce(v, types.Typ[types.Int])
		nv := ex.toInt64(v)
		o := ex.oblige(fr, st, "dec", label, and(app("bvslt", nv, ls.variants[i]), app("bvsge", ls.variants[i], bvLit(0, 64))), pos, "loop variant decreases and is bounded: "+c.Src)
		if o != nil {
			o.Props = c.Props
		}
	}
}

// loopMods computes what a loop body may write.
func (ex *Exec) loopMods(fr *Frame, li *loopInfo) (keys []string, top bool, regs []*ssa.Alloc) {
	acc := &modInfo{keys: map[string]bool{}}
	seen := map[*ssa.Function]bool{}
	regSet := map[*ssa.Alloc]bool{}
	tmp := &ssa.Function{}
	_ = tmp
	for b := range li.blocks {
		for _, in := range b.Instrs {
			if s, ok := in.(*ssa.Store); ok {
				if a, ok := rootAlloc(s.Addr); ok && fr.regs[a] {
					regSet[a] = true
					continue
				}
			}
			if a, ok := in.(*ssa.Alloc); ok && fr.regs[a] {
				regSet[a] = true
			}
		}
	}
	ex.modWalkBlocks(fr.fn, li.blocks, seen, acc)
	for k := range acc.keys {
		keys = append(keys, k)
	}
	sort.Strings(keys)
	for a := range regSet {
		regs = append(regs, a)
	}
	sort.Slice(regs, func(i, j int) bool { return regs[i].Pos() < regs[j].Pos() })
	return keys, acc.top, regs
}

// ---------- solving ----------

var queryMu sync.Mutex

type solveCfg struct {
	outDir   string
	timeout  time.Duration
	first    time.Duration
	retried  bool
	workers  int
	agree    bool // thorough: every available solver must agree
	stats    *solverStats
	// obligations listed as open known findings: expected not to discharge, so they get a short limit and no
	// second attempt (a proof, should the defect be gone, still counts)
	expectFail map[string]bool
}

// sizeBounds asks for a small counterexample (replayable allocation sizes).
func (ex *Exec) sizeBounds(limit uint64) string {
	var sb strings.Builder
	for _, in := range ex.inputs {
		ls := flatten(in.V.T)
		for i, l := range ls {
			if strings.HasSuffix(l.Path, ".c") && l.Sort == bv64 && i >= 3 {
				sb.WriteString("(assert " + app("bvule", in.V.L[i], bvLit(limit, 64)) + ")\n")
				sb.WriteString("(assert " + app("bvule", in.V.L[i-2], bvLit(64, 64)) + ")\n")
			}
		}
	}
	return sb.String()
}

func (ex *Exec) queryText(o *Obligation, cvc bool) (string, bool) {
	return ex.queryTextB(o, cvc, 0)
}

func (ex *Exec) queryTextB(o *Obligation, cvc bool, small uint64) (string, bool) {
	var sb strings.Builder
	for _, l := range ex.preamble {
		sb.WriteString(l)
		sb.WriteByte('\n')
	}
	ok := true
	for _, c := range ex.cmds[:o.Prefix] {
		t := c.Z3
		if cvc && c.Alt != "" {
			t = c.Alt
		}
		if cvc && strings.Contains(t, "(lambda ") {
			ok = false
		}
		sb.WriteString(t)
		sb.WriteByte('\n')
	}
	goal := and(o.PC, not(o.Cond))
	if cvc && strings.Contains(goal, "(lambda ") {
		ok = false
	}
	if small > 0 {
		sb.WriteString(ex.sizeBounds(small))
	}
	sb.WriteString("(assert " + goal + ")\n(check-sat)\n")
	if !o.Cover && len(ex.inputs) > 0 {
		var ts []string
		for _, in := range ex.modelTerms() {
			ts = append(ts, in.Term)
		}
		if len(ts) > 0 {
			sb.WriteString("(get-value (" + strings.Join(ts, " ") + "))\n")
		}
	}
	return sb.String(), ok
}

// modelTerms lists the terms whose values describe a counterexample input.
func (ex *Exec) modelTerms() []ModelVar {
	var out []ModelVar
	for _, in := range ex.inputs {
		ls := flatten(in.V.T)
		for i, l := range ls {
			if strings.HasPrefix(l.Sort, "(Array") || l.Sort == sStr || l.Sort == sOpq {
				continue
			}
			out = append(out, ModelVar{Name: in.Name + l.Path, Term: in.V.L[i]})
		}
		// byte slices: first bytes of the content in the initial heap
		if sl, ok := in.V.T.Underlying().(*types.Slice); ok && len(in.V.L) == 4 {
			if b, ok := sl.Elem().Underlying().(*types.Basic); ok && b.Kind() == types.Uint8 {
				if m, ok := ex.initHeap[bytesKey()]; ok {
					for k := 0; k < 72; k++ {
						out = append(out, ModelVar{Name: fmt.Sprintf("%s[%d]", in.Name, k),
							Term: sel(sel(m, in.V.L[0]), app("bvadd", in.V.L[1], bvLit(uint64(k), 64)))})
					}
				}
			}
		}
	}
	// scalar fields of struct objects passed by pointer (initial heap)
	for _, in := range ex.inputs {
		pt, ok := in.V.T.Underlying().(*types.Pointer)
		if !ok {
			continue
		}
		S, ok := isPlainStruct(pt.Elem())
		if !ok {
			continue
		}
		for i := 0; i < S.NumFields(); i++ {
			f := S.Field(i)
			if _, plain := isPlainStruct(f.Type()); plain {
				continue
			}
			for _, l := range flatten(f.Type()) {
				if strings.HasPrefix(l.Sort, "(Array") || l.Sort == sStr || l.Sort == sOpq {
					continue
				}
				if h0, ok := ex.initHeap[fieldKey(pt.Elem(), f.Name(), l.Path)]; ok {
					out = append(out, ModelVar{Name: in.Name + "." + f.Name() + l.Path, Term: sel(h0, in.V.L[0])})
				}
			}
		}
	}
	for _, e := range ex.extraModel {
		out = append(out, e)
	}
	return out
}

func safeName(s string) string {
	r := strings.NewReplacer("/", "_", ":", "_", "@", "_", "#", "_", "*", "", "(", "", ")", "", " ", "", "|", "_", "[", "_", "]", "_", "$", "_")
	s = r.Replace(s)
	if len(s) > 150 {
		s = s[:150]
	}
	return s
}

func solveAll(exs map[string]*Exec, results []*FuncResult, cfg *solveCfg) {
	type job struct {
		ex *Exec
		o  *Obligation
	}
	jobs := make(chan job, 256)
	var wg sync.WaitGroup
	for w := 0; w < cfg.workers; w++ {
		wg.Add(1)
		go func() {
			defer wg.Done()
			for j := range jobs {
				if cfg.expectFail[j.o.Name] && cfg.timeout > 8*time.Second {
					c2 := *cfg
					c2.timeout = 8 * time.Second
					solveOne(j.ex, j.o, &c2)
					continue
				}
				solveOne(j.ex, j.o, cfg)
			}
		}()
	}
	for _, r := range results {
		ex := exs[r.Key]
		for _, o := range r.Obls {
			jobs <- job{ex, o}
		}
	}
	close(jobs)
	wg.Wait()
	// second chance for a few undecided obligations: with the machine to themselves and a longer limit, so that a
	// loaded machine does not turn a slow proof into an alarm (many undecided obligations are not load: no retry)
	var again []job
	for _, r := range results {
		for _, o := range r.Obls {
			if !o.Static && !o.Cover && (o.Status == "timeout" || o.Status == "unknown") && !cfg.expectFail[o.Name] {
				again = append(again, job{exs[r.Key], o})
			}
		}
	}
	if len(again) > 0 && len(again) <= 12 && !cfg.retried {
		cfg2 := *cfg
		cfg2.timeout = cfg.timeout * 3
		cfg2.first = cfg.first * 3
		cfg2.retried = true
		sem := make(chan struct{}, 3)
		var wg2 sync.WaitGroup
		for _, j := range again {
			wg2.Add(1)
			sem <- struct{}{}
			go func(j job) {
				defer wg2.Done()
				defer func() { <-sem }()
				solveOne(j.ex, j.o, &cfg2)
				if j.o.Status == "proved" {
					j.o.Solver += " (second attempt, longer limit)"
				}
			}(j)
		}
		wg2.Wait()
	}
}

func solveOne(ex *Exec, o *Obligation, cfg *solveCfg) {
	if o.Static {
		return
	}
	base := cfg.outDir + "/" + safeName(o.Name)
	queryMu.Lock()
	z3text, _ := ex.queryText(o, false)
	ctext, cok := ex.queryText(o, true)
	queryMu.Unlock()
	z3file := base + ".smt2"
	_ = writeFileMkdir(z3file, []byte(z3text))
	o.SMTFile = z3file
	cvcfile := ""
	if cok {
		cvcfile = base + ".cvc5.smt2"
		_ = writeFileMkdir(cvcfile, []byte(ctext))
	}
	t0 := time.Now()
	// first a quick attempt on the relevance-pruned query (unsat there is a valid proof), then the full query
	var best SolverResult
	var all []SolverResult
	var r SolverResult
	noqText := ""
	noqCh := make(chan SolverResult, 1)
	noqFile := ""
	if o.Cover {
		// vacuity guard: "unsat" on the relevance-pruned query is definite (fewer assumptions);
		// "sat" there shows that the assumptions the path condition depends on are consistent.
		queryMu.Lock()
		var cmds []string
		for _, c := range ex.cmds[:o.Prefix] {
			cmds = append(cmds, c.Z3)
		}
		goal := "(assert " + o.PC + ")"
		ptxt := pruneQuery(ex.preamble, cmds, goal, 3) + goal + "\n(check-sat)\n"
		queryMu.Unlock()
		pfile := base + ".pruned.smt2"
		_ = writeFileMkdir(pfile, []byte(ptxt))
		pr, pall := raceSolvers(pfile, "", cfg.first, "z3")
		cfg.stats.add(pall, pr)
		o.Solver = pr.Solver
		o.Seconds = time.Since(t0).Seconds()
		o.SMTFile = pfile
		switch pr.Status {
		case "unsat":
			o.Status = "vacuous"
			o.Raw = pr.Out
			return
		case "sat":
			o.Status = "covered"
			return
		}
		// reachability could not be decided quickly: informational only (model search through bulk memory operations is hard)
		o.Status = "cover-unknown"
		return
	}
	if !o.Cover {
		queryMu.Lock()
		var cmds []string
		for _, c := range ex.cmds[:o.Prefix] {
			cmds = append(cmds, c.Z3)
		}
		goal := "(assert " + and(o.PC, not(o.Cond)) + ")"
		pbody := pruneQuery(ex.preamble, cmds, goal, 1)
		ptxt := pbody + goal + "\n(check-sat)\n"
		if strings.Contains(pbody, "(forall ") || strings.Contains(pbody, "(exists ") {
			var sb strings.Builder
			for _, ln := range strings.Split(pbody, "\n") {
				if strings.HasPrefix(strings.TrimSpace(ln), "(assert ") && (strings.Contains(ln, "(forall ") || strings.Contains(ln, "(exists ")) {
					continue
				}
				sb.WriteString(ln)
				sb.WriteByte('\n')
			}
			noqText = sb.String() + goal + "\n(check-sat)\n"
		}
		queryMu.Unlock()
		pfile := base + ".pruned.smt2"
		_ = writeFileMkdir(pfile, []byte(ptxt))
		if noqText != "" {
			// the ground variant runs from the start, next to the other attempts
			noqFile = base + ".noq.smt2"
			_ = writeFileMkdir(noqFile, []byte(noqText))
			go func() {
				nr, _ := raceSolvers(noqFile, "", cfg.timeout, "z3")
				noqCh <- nr
			}()
		}
		pr, pall := raceSolvers(pfile, "", cfg.first, "z3")
		all = append(all, pall...)
		if pr.Status == "unsat" {
			if cfg.agree {
				// thorough: the other z3-syntax back ends must not contradict the proof of the pruned query
				for _, sb := range solverBins {
					if strings.HasPrefix(sb.name, "cvc5") || sb.name == pr.Solver {
						continue
					}
					r2 := runSolver(contextBackground(), sb.name, sb.bin, pfile, cfg.timeout)
					all = append(all, r2)
					if r2.Status == "sat" {
						cfg.stats.add(all, pr)
						o.Solver = "disagreement:" + pr.Solver + "/" + r2.Solver
						o.Status = "unknown"
						o.Raw = "solvers disagree on the pruned query: unsat vs sat"
						o.Seconds = time.Since(t0).Seconds()
						o.SMTFile = pfile
						return
					}
				}
			}
			cfg.stats.add(all, pr)
			o.Solver = pr.Solver + " (pruned query)"
			o.Seconds = time.Since(t0).Seconds()
			o.Status = "proved"
			o.SMTFile = pfile
			return
		}
	}
	r, rall := raceSolvers(z3file, "", cfg.first, "z3-5")
	all = append(all, rall...)
	best = r
	if r.Status != "sat" && r.Status != "unsat" {
		// next to the full query: the pruned query without its quantified assumptions (they can keep the
		// instantiation engines busy on goals that are ground bit-vector facts); fewer assumptions, so only
		// "unsat" counts
		fullCh := make(chan struct{}, 1)
		var b2 SolverResult
		var a2 []SolverResult
		go func() {
			b2, a2 = raceSolvers(z3file, cvcfile, cfg.timeout, "")
			fullCh <- struct{}{}
		}()
		noqDone := noqFile == ""
		fullDone := false
		for !fullDone {
			select {
			case <-fullCh:
				fullDone = true
			case nr := <-noqCh:
				noqDone = true
				if nr.Status == "unsat" {
					cfg.stats.add([]SolverResult{nr}, nr)
					o.Solver = nr.Solver + " (pruned query, ground assumptions)"
					o.Seconds = time.Since(t0).Seconds()
					o.Status = "proved"
					o.SMTFile = noqFile
					return
				}
			}
		}
		all = append(all, a2...)
		best = b2
		if best.Status != "sat" && best.Status != "unsat" && !noqDone {
			if nr := <-noqCh; nr.Status == "unsat" {
				cfg.stats.add([]SolverResult{nr}, nr)
				o.Solver = nr.Solver + " (pruned query, ground assumptions)"
				o.Seconds = time.Since(t0).Seconds()
				o.Status = "proved"
				o.SMTFile = noqFile
				return
			}
		}
	} else if cfg.agree {
		// cross-check with the other back ends
		for _, sb := range solverBins[1:] {
			f := z3file
			if strings.HasPrefix(sb.name, "cvc5") {
				if cvcfile == "" {
					continue
				}
				f = cvcfile
			}
			r2 := runSolver(contextBackground(), sb.name, sb.bin, f, cfg.timeout)
			all = append(all, r2)
			if (r2.Status == "sat" || r2.Status == "unsat") && r2.Status != best.Status {
				best = SolverResult{Status: "unknown", Solver: "disagreement:" + best.Solver + "/" + r2.Solver, Out: "solvers disagree: " + best.Status + " vs " + r2.Status}
			}
		}
	}
	cfg.stats.add(all, best)
	o.Solver = best.Solver
	o.Seconds = time.Since(t0).Seconds()
	o.Raw = best.Out
	if len(o.Raw) > 6000 {
		o.Raw = o.Raw[:6000]
	}
	switch {
	case o.Cover && best.Status == "sat":
		o.Status = "covered"
	case o.Cover && best.Status == "unsat":
		o.Status = "vacuous"
	case o.Cover:
		o.Status = "cover-unknown"
	case best.Status == "unsat":
		o.Status = "proved"
	case best.Status == "sat":
		o.Status = "failed"
		o.Model = map[string]string{}
		// prefer a small counterexample that can be replayed
		if sb := ex.sizeBounds(1); sb != "" {
			for _, lim := range []uint64{64, 4096} {
				queryMu.Lock()
				txt, _ := ex.queryTextB(o, false, lim)
				queryMu.Unlock()
				f := base + fmt.Sprintf(".small%d.smt2", lim)
				_ = writeFileMkdir(f, []byte(txt))
				r2, _ := raceSolvers(f, "", 15*time.Second, "z3")
				if r2.Status == "sat" {
					best.Out = r2.Out
					o.Raw = r2.Out
					if len(o.Raw) > 6000 {
						o.Raw = o.Raw[:6000]
					}
					break
				}
			}
		}
		// get-value prints pairs (term value) in the order requested
		o.Model = positionalModel(best.Out, ex.modelTerms())
	default:
		o.Status = "unknown"
		if best.Status == "timeout" {
			o.Status = "timeout"
		}
	}
}


// objRef evaluates an expression that denotes a struct object and returns its reference and struct type.
func (en *Env) objRef(e Expr) (string, types.Type) {
	if s, ok := e.(*ESel); ok {
		// try as nested struct field of an object
		if isObj := en.denotesObject(s.X); isObj {
			pref, PT := en.objRef(s.X)
			if S, ok := PT.Underlying().(*types.Struct); ok {
				for i := 0; i < S.NumFields(); i++ {
					f := S.Field(i)
					if f.Name() != s.Name {
						continue
					}
					if _, plain := isPlainStruct(f.Type()); plain {
						return en.ex.subRef(PT, f.Name(), pref), f.Type()
					}
					if p, ok := f.Type().Underlying().(*types.Pointer); ok {
						return en.ex.loadField(en.st, PT, f, pref).L[0], p.Elem()
					}
					if _, ok := f.Type().Underlying().(*types.Interface); ok {
						if impl := en.ex.uniqueImpl(f.Type()); impl != nil {
							v := en.ex.loadField(en.st, PT, f, pref)
							return v.L[1], impl.Underlying().(*types.Pointer).Elem()
						}
					}
				}
			}
		}
	}
	obj := en.eval(e)
	T := obj.T
	if p, ok := T.Underlying().(*types.Pointer); ok {
		return obj.L[0], p.Elem()
	}
	if _, ok := T.Underlying().(*types.Interface); ok && len(obj.L) == 2 {
		if impl := en.ex.uniqueImpl(T); impl != nil {
			return obj.L[1], impl.Underlying().(*types.Pointer).Elem()
		}
	}
	en.fail("%s does not denote an object", exprString(e))
	return "", nil
}

// denotesObject: the expression is a pointer/object (not a package name).
func (en *Env) denotesObject(e Expr) bool {
	if id, ok := e.(*EIdent); ok {
		if _, bound := en.vars[id.Name]; bound {
			return true
		}
		if en.fr != nil && en.findLocal(id.Name) != nil {
			return true
		}
		return false
	}
	_, isSel := e.(*ESel)
	return isSel
}


// callersObligation: structural call-graph condition "only these functions call fn" over non-test module code.
func callersObligation(P *Program, fn *ssa.Function, ct *FuncContract) *Obligation {
	o := &Obligation{Name: funcKey(fn) + "/callers", Kind: "callers", Func: funcKey(fn), Pos: P.pos(fn.Pos()), Static: true,
		Detail: "only " + strings.Join(ct.Callers, ", ") + " may call " + funcKey(fn) + " (static call graph of non-test module code)", Solver: "call-graph"}
	var bad []string
	for f := range P.allFns {
		if !isModFn(f) || len(f.Blocks) == 0 || P.isTestFile(f.Pos()) {
			continue
		}
		root := f
		for root.Parent() != nil {
			root = root.Parent()
		}
		if strings.HasSuffix(P.Fset.Position(root.Pos()).Filename, "_test.go") {
			continue
		}
		for _, b := range f.Blocks {
			for _, in := range b.Instrs {
				ci, ok := in.(ssa.CallInstruction)
				if !ok {
					continue
				}
				if cc := ci.Common(); cc.IsInvoke() && fn.Signature.Recv() != nil && cc.Method.Name() == fn.Name() {
					// a call through an interface that fn's receiver type implements may reach fn
					if it, ok := cc.Value.Type().Underlying().(*types.Interface); ok && types.Implements(fn.Signature.Recv().Type(), it) {
						if !containsStr(ct.Callers, funcKey(root)) {
							bad = append(bad, funcKey(f)+" (via interface "+typeKey(cc.Value.Type())+") at "+P.pos(in.Pos()))
						}
					}
					continue
				}
				if ci.Common().StaticCallee() != fn {
					// method values / closures referring to fn
					continue
				}
				if !containsStr(ct.Callers, funcKey(root)) {
					bad = append(bad, funcKey(f)+" at "+P.pos(in.Pos()))
				}
			}
		}
		// taking the function as a value also counts
		for _, b := range f.Blocks {
			for _, in := range b.Instrs {
				for _, op := range in.Operands(nil) {
					if *op == ssa.Value(fn) {
						if ci, ok := in.(ssa.CallInstruction); ok && ci.Common().Value == ssa.Value(fn) {
							continue
						}
						if !containsStr(ct.Callers, funcKey(root)) {
							bad = append(bad, funcKey(f)+" (function value) at "+P.pos(in.Pos()))
						}
					}
				}
			}
		}
	}
	sort.Strings(bad)
	if len(bad) == 0 {
		o.Status = "proved"
	} else {
		o.Status = "unknown"
		o.Raw = "unexpected callers: " + strings.Join(bad, "; ")
		o.Detail += " -- unexpected: " + strings.Join(bad, "; ")
	}
	return o
}


// ifaceContractsFor lists the interface-method contracts ("pkg.Iface.Method") that fn implements.
func (ex *Exec) ifaceContractsFor(fn *ssa.Function) []*FuncContract {
	recv := fn.Signature.Recv()
	if recv == nil {
		return nil
	}
	var out []*FuncContract
	var keys []string
	for k := range ex.C.Funcs {
		keys = append(keys, k)
	}
	sort.Strings(keys)
	for _, k := range keys {
		ict := ex.C.Funcs[k]
		if (len(ict.Ensures) == 0 && !ict.HasMod) || ex.P.Funcs[k] != nil {
			continue
		}
		it, mname := ex.P.ifaceOfKey(k)
		if it == nil || mname != fn.Name() {
			continue
		}
		if types.Implements(recv.Type(), it) {
			out = append(out, ict)
		}
	}
	return out
}

// ifaceOfKey resolves "pkg.Type.Method" to an interface type of the module.
func (P *Program) ifaceOfKey(key string) (*types.Interface, string) {
	k := strings.LastIndex(key, ".")
	if k < 0 {
		return nil, ""
	}
	tname, mname := key[:k], key[k+1:]
	j := strings.LastIndex(tname, ".")
	if j < 0 {
		return nil, ""
	}
	pkgShort, typ := tname[:j], tname[j+1:]
	for path, p := range P.TPkgs {
		if shortPkg(path) != pkgShort {
			continue
		}
		if tn, ok := p.Scope().Lookup(typ).(*types.TypeName); ok {
			if it, ok := tn.Type().Underlying().(*types.Interface); ok {
				return it, mname
			}
		}
	}
	return nil, ""
}

func (ex *Exec) checkIfaceEnsures(fr *Frame, st, pre *State, results []Val) {
	fn := fr.fn
	if ex.specMode != 0 || len(fn.Params) == 0 {
		return
	}
	for _, ict := range ex.ifaceContractsFor(fn) {
		vars := map[string]Val{"recv": fr.params[fn.Params[0].Name()]}
		for i, p := range fn.Params[1:] {
			vars[fmt.Sprintf("arg%d", i)] = fr.params[p.Name()]
		}
		for k, rv := range results {
			vars[fmt.Sprintf("result%d", k)] = rv
			if k == 0 {
				vars["result"] = rv
			}
		}
		for _, c := range ict.Ensures {
			en := ex.newEnv(fr, st, pre, vars)
			en.pos = token.NoPos
			t, err := en.evalBool(c.E)
			if err != nil {
				ex.errors = append(ex.errors, fmt.Sprintf("%s: interface ensures %s: %v", c.Line, c.Label, err))
				continue
			}
			o := ex.oblige(fr, st, "post", "iface:"+c.Label, t, fn.Pos(), "postcondition of the interface method ("+ict.Key+"): "+c.Src)
			if o != nil {
				o.Props = c.Props
				o.HasQuant = en.quant
			}
		}
	}
}

// assumeIfaceEnsures: what every implementation of the interface method guarantees (checked on each of them).
func (ex *Exec) assumeIfaceEnsures(fr *Frame, st *State, ict *FuncContract, recv Val, args []Val, r Val) {
	vars := map[string]Val{"recv": recv}
	for i, a := range args {
		vars[fmt.Sprintf("arg%d", i)] = a
	}
	if tup, ok := r.T.(*types.Tuple); ok {
		for k := 0; k < tup.Len(); k++ {
			lo, hi := tupleRange(tup, k)
			if hi <= len(r.L) {
				vars[fmt.Sprintf("result%d", k)] = Val{T: tup.At(k).Type(), L: r.L[lo:hi]}
			}
		}
		if tup.Len() == 1 {
			vars["result"] = vars["result0"]
		}
	} else if r.T != nil {
		vars["result"], vars["result0"] = r, r
	}
	for _, c := range ict.Ensures {
		en := ex.newEnv(fr, st, ex.preState, vars)
		t, err := en.evalBool(c.E)
		if err != nil {
			ex.errors = append(ex.errors, fmt.Sprintf("%s: interface ensures %s: %v", c.Line, c.Label, err))
			continue
		}
		ex.assume(st.pc, t)
	}
}

// fnTerm is component j of the result of the "option function" function key applied to args.
func (ex *Exec) fnTerm(key string, j int, sort string, args []Val) string {
	var sorts, terms []string
	for _, a := range args {
		for i, l := range flatten(a.T) {
			sorts = append(sorts, l.Sort)
			terms = append(terms, a.L[i])
		}
	}
	f := ex.declFun(fmt.Sprintf("uf|fn:%s#%d", key, j), sorts, sort) // a spec can name it: uf("fn:<key>#<j>", T, args...)
	if len(terms) == 0 {
		return f
	}
	return app(f, terms...)
}
