package main

import (
	"bytes"
	"encoding/json"
	"fmt"
	"go/types"
	"os"
	"os/exec"
	"path/filepath"
	"strconv"
	"strings"
	"text/template"
	"time"
)

// modelUint parses an SMT value (#x.., #b.., (_ bvN w), decimal, (- n)) as uint64.
func modelUint(v string) (uint64, bool) {
	v = strings.TrimSpace(v)
	switch {
	case strings.HasPrefix(v, "#x"):
		u, err := strconv.ParseUint(v[2:], 16, 64)
		return u, err == nil
	case strings.HasPrefix(v, "#b"):
		u, err := strconv.ParseUint(v[2:], 2, 64)
		return u, err == nil
	case strings.HasPrefix(v, "( _ bv"), strings.HasPrefix(v, "(_ bv"):
		f := strings.Fields(strings.Trim(v, "()"))
		for _, x := range f {
			if strings.HasPrefix(x, "bv") {
				u, err := strconv.ParseUint(x[2:], 10, 64)
				return u, err == nil
			}
		}
	case v == "true":
		return 1, true
	case v == "false":
		return 0, true
	case strings.HasPrefix(v, "(") && strings.Contains(v, "-"):
		f := strings.Fields(strings.Trim(v, "()"))
		if len(f) == 2 {
			u, err := strconv.ParseUint(f[1], 10, 64)
			return -u, err == nil
		}
	}
	u, err := strconv.ParseUint(v, 10, 64)
	return u, err == nil
}

type replayArg struct {
	Name string
	Decl string // Go statements that define the variable
	Snap string // statements after the call to check frame conditions
}

const maxReplayAlloc = 1 << 22

// goLiteral builds Go code for one parameter from the model.
func goLiteral(pkgName string, name string, T types.Type, model map[string]string, guard bool) (replayArg, bool) {
	q := func(T types.Type) string {
		return types.TypeString(T, func(p *types.Package) string {
			if p.Name() == pkgName {
				return ""
			}
			return p.Name()
		})
	}
	switch u := T.Underlying().(type) {
	case *types.Basic:
		switch {
		case u.Info()&types.IsInteger != 0:
			v, ok := modelUint(model[name])
			if !ok {
				v = 0
			}
			w := bvWidth(u)
			v &= mask(w)
			if u.Info()&types.IsUnsigned == 0 {
				// signed: reinterpret
				var sv int64
				switch w {
				case 8:
					sv = int64(int8(v))
				case 16:
					sv = int64(int16(v))
				case 32:
					sv = int64(int32(v))
				default:
					sv = int64(v)
				}
				return replayArg{Name: name, Decl: fmt.Sprintf("var %s %s = %s(%d)", name, q(T), q(T), sv)}, true
			}
			return replayArg{Name: name, Decl: fmt.Sprintf("var %s %s = %s(%d)", name, q(T), q(T), v)}, true
		case u.Info()&types.IsBoolean != 0:
			v, _ := modelUint(model[name])
			return replayArg{Name: name, Decl: fmt.Sprintf("var %s %s = %v", name, q(T), v == 1)}, true
		}
	case *types.Slice:
		b, ok := u.Elem().Underlying().(*types.Basic)
		if !ok || b.Kind() != types.Uint8 {
			return replayArg{}, false
		}
		ln, ok1 := modelUint(model[name+".l"])
		cp, ok2 := modelUint(model[name+".c"])
		base, _ := modelUint(model[name+".b"])
		if !ok1 || !ok2 {
			return replayArg{}, false
		}
		if base == 0 && cp == 0 {
			return replayArg{Name: name, Decl: fmt.Sprintf("var %s %s", name, q(T))}, true
		}
		if cp > maxReplayAlloc || ln > cp {
			return replayArg{}, false
		}
		var bs []string
		for k := 0; k < 72 && uint64(k) < cp; k++ {
			v, _ := modelUint(model[fmt.Sprintf("%s[%d]", name, k)])
			bs = append(bs, fmt.Sprint(v&0xff))
		}
		var sb strings.Builder
		fmt.Fprintf(&sb, "%s_mem := make([]byte, %d)\n", name, cp+16)
		fmt.Fprintf(&sb, "\tfor i := range %s_mem { %s_mem[i] = 0xA5 }\n", name, name)
		fmt.Fprintf(&sb, "\tcopy(%s_mem[8:8+%d], make([]byte, %d))\n", name, cp, cp)
		fmt.Fprintf(&sb, "\tcopy(%s_mem[8:], []byte{%s})\n", name, strings.Join(bs, ", "))
		fmt.Fprintf(&sb, "\tvar %s %s = %s(%s_mem[8:8+%d:8+%d])\n", name, q(T), q(T), name, ln, cp)
		fmt.Fprintf(&sb, "\t%s_before := append([]byte(nil), %s_mem...)", name, name)
		snap := fmt.Sprintf(`for i := range %[1]s_mem { if (i < 8 || i >= 8+%[2]d) && %[1]s_mem[i] != %[1]s_before[i] { fmt.Printf("VERIF-REPLAY: byte outside %[1]s[0:len] changed at offset %%d (len=%[2]d)\n", i-8); break } }`, name, ln)
		return replayArg{Name: name, Decl: sb.String(), Snap: snap}, true
	}
	return replayArg{}, false
}

var replayTmpl = template.Must(template.New("r").Parse(`package {{.Pkg}}

import (
	"fmt"
	"testing"
)

func TestVerifReplay(t *testing.T) {
	defer func() {
		if r := recover(); r != nil {
			fmt.Printf("VERIF-REPLAY: panic: %v\n", r)
		}
	}()
	{{range .Args}}{{.Decl}}
	{{end}}
	{{.Call}}
	{{range .Args}}{{.Snap}}
	{{end}}
	fmt.Println("VERIF-REPLAY: returned")
}
`))

// replayFunction generates an in-package test from the model and runs it with go test -overlay.
func replayFunction(P *Program, ex *Exec, o *Obligation, outDir string) (map[string]any, bool) {
	fn := ex.root
	out := map[string]any{}
	if tmpl := templateFor(o); tmpl != nil {
		return runTemplate(P, ex, o, outDir, tmpl)
	}
	if len(o.Model) == 0 {
		out["replay"] = "the solver returned no model values"
		return out, false
	}
	pkg := fn.Pkg.Pkg
	var args []replayArg
	var names []string
	for _, p := range fn.Params {
		a, ok := goLiteral(pkg.Name(), p.Name(), p.Type(), o.Model, true)
		if !ok {
			out["replay"] = fmt.Sprintf("parameter %s of type %s cannot be built from a model (not-replayable)", p.Name(), typeKey(p.Type()))
			return out, false
		}
		args = append(args, a)
		names = append(names, p.Name())
	}
	call := ""
	if fn.Signature.Recv() != nil {
		call = fmt.Sprintf("%s.%s(%s)", names[0], fn.Name(), strings.Join(names[1:], ", "))
	} else {
		call = fmt.Sprintf("%s(%s)", fn.Name(), strings.Join(names, ", "))
	}
	if fn.Signature.Results().Len() > 0 {
		us := make([]string, fn.Signature.Results().Len())
		for i := range us {
			us[i] = "_"
		}
		call = strings.Join(us, ", ") + " = " + call
	}
	var src bytes.Buffer
	_ = replayTmpl.Execute(&src, map[string]any{"Pkg": pkg.Name(), "Args": args, "Call": call})
	oracle := "panic"
	if o.Kind == "assigns" {
		oracle = "frame"
	}
	return runReplay(P, pkg, src.String(), o, outDir, oracle)
}

// runReplay injects the test with -overlay and interprets its output.
func runReplay(P *Program, pkg *types.Package, src string, o *Obligation, outDir, oracle string) (map[string]any, bool) {
	out := map[string]any{"test_source": src}
	dir := filepath.Join(outDir, "replays", "src_"+safeName(o.Name))
	_ = os.MkdirAll(dir, 0o755)
	testFile := filepath.Join(dir, "zz_verif_replay_test.go")
	_ = os.WriteFile(testFile, []byte(src), 0o644)
	rel := strings.TrimPrefix(pkg.Path(), modPath)
	pkgDir := filepath.Join(P.Repo, rel)
	ov := map[string]any{"Replace": map[string]string{filepath.Join(pkgDir, "zz_verif_replay_test.go"): testFile}}
	ovb, _ := json.Marshal(ov)
	ovFile := filepath.Join(dir, "overlay.json")
	_ = os.WriteFile(ovFile, ovb, 0o644)
	cmd := exec.Command("bash", "-c", fmt.Sprintf("ulimit -v 8000000; cd %s && go test -overlay %s -vet=off -v -count=1 -timeout 60s -run '^TestVerifReplay$' .", pkgDir, ovFile))
	cmd.Env = append(os.Environ(), "GOFLAGS=-mod=mod", "GOPROXY=off", "GOSUMDB=off", "GOTOOLCHAIN=local")
	var buf bytes.Buffer
	cmd.Stdout = &buf
	cmd.Stderr = &buf
	done := make(chan struct{})
	go func() { _ = cmd.Run(); close(done) }()
	select {
	case <-done:
	case <-time.After(150 * time.Second):
		if cmd.Process != nil {
			_ = cmd.Process.Kill()
		}
	}
	s := buf.String()
	if len(s) > 4000 {
		s = s[:4000]
	}
	out["go_test_output"] = s
	out["replay_cmd"] = fmt.Sprintf("cd %s && go test -overlay %s -vet=off -count=1 -run '^TestVerifReplay$' .", pkgDir, ovFile)
	confirmed := false
	switch oracle {
	case "panic":
		confirmed = strings.Contains(s, "VERIF-REPLAY: panic:") || strings.Contains(s, "panic:")
	case "frame":
		confirmed = strings.Contains(s, "VERIF-REPLAY: byte outside") || strings.Contains(s, "VERIF-REPLAY: panic:")
	case "marker":
		confirmed = strings.Contains(s, "VERIF-REPLAY: violated")
	}
	if confirmed {
		out["replay"] = "confirmed on the real code"
	} else {
		out["replay"] = "the model did not reproduce on the real code (not-reproduced)"
	}
	return out, confirmed
}
