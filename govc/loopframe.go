package main

import (
	"go/token"
	"go/types"

	"golang.org/x/tools/go/ssa"
)

// Localised loop havoc: when every write a loop makes to a heap key goes through an
// object/base that does not change during the loop, only those objects are forgotten at
// the loop head; everything else in the key provably keeps its value (no frame invariant needed).

type loopWrites struct {
	targets map[string][]string // key -> object/base terms (evaluated in the head state)
	bad     map[string]bool     // keys that cannot be localised
}

func (lw *loopWrites) add(keys []string, term string, ok bool) {
	for _, k := range keys {
		if !ok {
			lw.bad[k] = true
			continue
		}
		dup := false
		for _, t := range lw.targets[k] {
			if t == term {
				dup = true
			}
		}
		if !dup {
			lw.targets[k] = append(lw.targets[k], term)
		}
	}
}

type invCtx struct {
	ex      *Exec
	fr      *Frame
	li      *loopInfo
	st      *State
	modRegs map[*ssa.Alloc]bool
	modKeys map[string]bool
	depth   int
}

// evalInv returns the value of v if it provably does not change during the loop.
func (c *invCtx) evalInv(v ssa.Value) (Val, bool) {
	c.depth++
	defer func() { c.depth-- }()
	if c.depth > 12 {
		return Val{}, false
	}
	switch x := v.(type) {
	case *ssa.Const, *ssa.Global, *ssa.Function:
		return c.ex.value(c.fr, c.st, v), true
	case *ssa.Parameter, *ssa.FreeVar:
		return c.fr.vals[v], true
	case ssa.Instruction:
		if !c.li.blocks[x.Block()] {
			if r, ok := c.fr.vals[v]; ok {
				return r, true
			}
			return Val{}, false
		}
	}
	switch x := v.(type) {
	case *ssa.UnOp:
		if x.Op != token.MUL {
			return Val{}, false
		}
		return c.loadInv(x.X)
	case *ssa.Slice:
		b, ok := c.evalInv(x.X)
		if !ok {
			return Val{}, false
		}
		if _, isSl := x.X.Type().Underlying().(*types.Slice); isSl {
			return Val{T: x.Type(), L: []string{b.L[0], "?", "?", "?"}}, true
		}
		if _, isP := x.X.Type().Underlying().(*types.Pointer); isP {
			return Val{T: x.Type(), L: []string{b.L[0], "?", "?", "?"}}, true
		}
		return Val{}, false
	case *ssa.ChangeType:
		return c.evalInv(x.X)
	case *ssa.Convert:
		if _, ok := x.Type().Underlying().(*types.Slice); ok {
			if _, ok2 := x.X.Type().Underlying().(*types.Slice); ok2 {
				return c.evalInv(x.X)
			}
		}
		return Val{}, false
	case *ssa.FieldAddr:
		// address of a nested struct: sub-reference of an invariant object
		b, ok := c.evalInv(x.X)
		if !ok {
			return Val{}, false
		}
		ST := x.X.Type().Underlying().(*types.Pointer).Elem()
		f := ST.Underlying().(*types.Struct).Field(x.Field)
		return Val{T: x.Type(), L: []string{c.ex.subRef(ST, f.Name(), b.L[0])}}, true
	}
	return Val{}, false
}

// loadInv evaluates *addr in the head state if the location is not written by the loop.
func (c *invCtx) loadInv(addr ssa.Value) (Val, bool) {
	if a, ok := rootAlloc(addr); ok && c.fr.regs[a] {
		if c.modRegs[a] {
			return Val{}, false
		}
		if rp, ok := c.ex.regPlace(c.fr, c.st, addr); ok && len(rp.idx) == 0 {
			return c.ex.loadReg(c.st, rp), true
		}
		return Val{}, false
	}
	switch p := addr.(type) {
	case *ssa.FieldAddr:
		obj, ok := c.evalInv(p.X)
		if !ok {
			return Val{}, false
		}
		ST := p.X.Type().Underlying().(*types.Pointer).Elem()
		f := ST.Underlying().(*types.Struct).Field(p.Field)
		if _, plain := isPlainStruct(f.Type()); plain {
			return Val{}, false
		}
		for _, l := range flatten(f.Type()) {
			if c.modKeys[fieldKey(ST, f.Name(), l.Path)] {
				return Val{}, false
			}
		}
		return c.ex.loadField(c.st, ST, f, obj.L[0]), true
	case *ssa.Global:
		for _, l := range flatten(p.Type().(*types.Pointer).Elem()) {
			if c.modKeys[globalKey(p, l.Path)] {
				return Val{}, false
			}
		}
		return c.ex.loadGlobal(c.st, p), true
	}
	return Val{}, false
}

// paramRooted reports whether every heap write of fn (transitively) goes through memory
// reachable from its own slice/pointer parameters' top level (so a caller can attribute
// the writes to the arguments it passes).
func (ex *Exec) paramRooted(fn *ssa.Function, depth int) bool {
	if r, ok := ex.paramRootedCache[fn]; ok {
		return r
	}
	if depth > 5 || len(fn.Blocks) == 0 {
		return false
	}
	ex.paramRootedCache[fn] = false // recursion guard
	spill := map[*ssa.Alloc]bool{}
	for _, b := range fn.Blocks {
		for _, in := range b.Instrs {
			if s, ok := in.(*ssa.Store); ok {
				if a, ok := s.Addr.(*ssa.Alloc); ok && registerLike(a) {
					if _, isParam := s.Val.(*ssa.Parameter); isParam {
						spill[a] = true
					} else {
						delete(spill, a)
						spill[a] = false
					}
				}
			}
		}
	}
	var rooted func(v ssa.Value, d int) bool
	rooted = func(v ssa.Value, d int) bool {
		if d > 10 {
			return false
		}
		switch x := v.(type) {
		case *ssa.Parameter:
			return true
		case *ssa.Slice:
			return rooted(x.X, d+1)
		case *ssa.ChangeType:
			return rooted(x.X, d+1)
		case *ssa.UnOp:
			if x.Op == token.MUL {
				if a, ok := x.X.(*ssa.Alloc); ok && spill[a] {
					return true
				}
			}
		}
		return false
	}
	ok := true
	for _, b := range fn.Blocks {
		for _, in := range b.Instrs {
			switch in := in.(type) {
			case *ssa.Store:
				if a, isA := rootAlloc(in.Addr); isA && registerLike(a) {
					continue
				}
				switch p := in.Addr.(type) {
				case *ssa.IndexAddr:
					if !rooted(p.X, 0) {
						ok = false
					}
				case *ssa.FieldAddr:
					if !rooted(p.X, 0) {
						ok = false
					}
				default:
					ok = false
				}
			case *ssa.MapUpdate:
				ok = false
			case ssa.CallInstruction:
				if _, isGo := in.(*ssa.Go); isGo {
					continue
				}
				cc := in.Common()
				if bi, isB := cc.Value.(*ssa.Builtin); isB {
					switch bi.Name() {
					case "copy", "clear":
						if !rooted(cc.Args[0], 0) {
							ok = false
						}
					case "append", "delete":
						ok = false
					}
					continue
				}
				callee := cc.StaticCallee()
				if callee == nil {
					ok = false
					continue
				}
				if len(callee.Blocks) > 0 && isModFn(callee) {
					if keys, top := ex.modSet(callee); top || len(keys) > 0 {
						// callee writes: its arguments must be rooted here and it must be param-rooted itself
						if !ex.paramRooted(callee, depth+1) {
							ok = false
						}
						for _, a := range cc.Args {
							switch a.Type().Underlying().(type) {
							case *types.Slice, *types.Pointer:
								if !rooted(a, 0) {
									ok = false
								}
							}
						}
					}
				} else {
					for _, a := range cc.Args {
						switch a.Type().Underlying().(type) {
						case *types.Slice:
							if !rooted(a, 0) {
								ok = false
							}
						case *types.Pointer:
							if al, isA := rootAlloc(a); isA && registerLike(al) {
								continue
							}
							if fa, isF := a.(*ssa.FieldAddr); isF && rooted(fa.X, 0) {
								continue
							}
							ok = false
						}
					}
				}
			}
		}
	}
	ex.paramRootedCache[fn] = ok
	return ok
}

func isModFn(f *ssa.Function) bool {
	return f.Pkg != nil && isModulePkg(f.Pkg.Pkg) || f.Parent() != nil || (f.Object() != nil && isModulePkg(f.Object().Pkg()))
}

// localizeLoopWrites analyses the writes of a loop.
func (ex *Exec) localizeLoopWrites(fr *Frame, li *loopInfo, st *State, keys []string, regs []*ssa.Alloc) *loopWrites {
	lw := &loopWrites{targets: map[string][]string{}, bad: map[string]bool{}}
	c := &invCtx{ex: ex, fr: fr, li: li, st: st, modRegs: map[*ssa.Alloc]bool{}, modKeys: map[string]bool{}}
	for _, a := range regs {
		c.modRegs[a] = true
	}
	for _, k := range keys {
		c.modKeys[k] = true
	}
	writePtr := func(p ssa.Value) {
		if a, ok := rootAlloc(p); ok && fr.regs[a] {
			return
		}
		switch p := p.(type) {
		case *ssa.FieldAddr:
			ST := p.X.Type().Underlying().(*types.Pointer).Elem()
			f := ST.Underlying().(*types.Struct).Field(p.Field)
			obj, ok := c.evalInv(p.X)
			if _, plain := isPlainStruct(f.Type()); plain {
				lw.add(ex.structKeys(f.Type()), "", false)
				return
			}
			var ks []string
			for _, l := range flatten(f.Type()) {
				ks = append(ks, fieldKey(ST, f.Name(), l.Path))
			}
			t := ""
			if ok {
				t = obj.L[0]
			}
			lw.add(ks, t, ok)
		case *ssa.IndexAddr:
			switch xt := p.X.Type().Underlying().(type) {
			case *types.Slice:
				if _, plain := isPlainStruct(xt.Elem()); plain {
					lw.add(ex.structKeys(xt.Elem()), "", false)
					return
				}
				b, ok := c.evalInv(p.X)
				t := ""
				if ok {
					t = b.L[0]
				}
				lw.add(ex.elemKeys(xt.Elem()), t, ok)
			case *types.Pointer:
				A := xt.Elem().Underlying().(*types.Array)
				if fa, isF := p.X.(*ssa.FieldAddr); isF {
					ST := fa.X.Type().Underlying().(*types.Pointer).Elem()
					f := ST.Underlying().(*types.Struct).Field(fa.Field)
					obj, ok := c.evalInv(fa.X)
					var ks []string
					for _, l := range flatten(f.Type()) {
						ks = append(ks, fieldKey(ST, f.Name(), l.Path))
					}
					t := ""
					if ok {
						t = obj.L[0]
					}
					lw.add(ks, t, ok)
					return
				}
				b, ok := c.evalInv(p.X)
				t := ""
				if ok {
					t = b.L[0]
				}
				lw.add(ex.elemKeys(A.Elem()), t, ok)
			}
		default:
			T := p.Type().Underlying().(*types.Pointer).Elem()
			lw.add(ex.writeKeysForType(T), "", false)
		}
	}
	sliceArg := func(a ssa.Value) {
		sl, ok := a.Type().Underlying().(*types.Slice)
		if !ok {
			return
		}
		if _, plain := isPlainStruct(sl.Elem()); plain {
			lw.add(ex.structKeys(sl.Elem()), "", false)
			return
		}
		b, ok2 := c.evalInv(a)
		t := ""
		if ok2 {
			t = b.L[0]
		}
		lw.add(ex.elemKeys(sl.Elem()), t, ok2)
	}
	for b := range li.blocks {
		for _, in := range b.Instrs {
			switch in := in.(type) {
			case *ssa.Store:
				writePtr(in.Addr)
			case *ssa.MapUpdate:
				m, ok := c.evalInv(in.Map)
				t := ""
				if ok {
					t = m.L[0]
				}
				lw.add(ex.mapKeys(in.Map.Type()), t, ok)
			case ssa.CallInstruction:
				if _, isGo := in.(*ssa.Go); isGo {
					continue
				}
				cc := in.Common()
				if bi, isB := cc.Value.(*ssa.Builtin); isB {
					switch bi.Name() {
					case "copy", "clear":
						if _, isSl := cc.Args[0].Type().Underlying().(*types.Slice); isSl {
							sliceArg(cc.Args[0])
						} else {
							lw.add(ex.mapKeys(cc.Args[0].Type()), "", false)
						}
					case "append":
						sliceArg(cc.Args[0])
					case "delete":
						m, ok := c.evalInv(cc.Args[0])
						t := ""
						if ok {
							t = m.L[0]
						}
						lw.add(ex.mapKeys(cc.Args[0].Type()), t, ok)
					}
					continue
				}
				if cc.IsInvoke() {
					it := cc.Value.Type().Underlying().(*types.Interface)
					n := 0
					for _, f := range ex.P.implementations(it, cc.Method) {
						if len(f.Blocks) > 0 && isModFn(f) {
							ks, _ := ex.modSet(f)
							lw.add(ks, "", false)
							n++
						}
					}
					if n == 0 {
						for _, a := range cc.Args {
							sliceArg(a)
						}
					}
					continue
				}
				callee := cc.StaticCallee()
				if callee == nil {
					if mc, ok := cc.Value.(*ssa.MakeClosure); ok {
						callee = mc.Fn.(*ssa.Function)
					}
				}
				if callee == nil {
					continue // top is handled by the caller (havocAll)
				}
				if isModFn(callee) && len(callee.Blocks) > 0 {
					ks, _ := ex.modSet(callee)
					if len(ks) == 0 {
						continue
					}
					if ex.paramRooted(callee, 0) {
						for _, a := range cc.Args {
							switch a.Type().Underlying().(type) {
							case *types.Slice:
								sliceArg(a)
							case *types.Pointer:
								// the callee may write any field of *a
								obj, ok := c.evalInv(a)
								T := a.Type().Underlying().(*types.Pointer).Elem()
								t := ""
								if ok {
									t = obj.L[0]
								}
								if _, plain := isPlainStruct(T); plain {
									var fk []string
									S := T.Underlying().(*types.Struct)
									for i := 0; i < S.NumFields(); i++ {
										f := S.Field(i)
										if _, p2 := isPlainStruct(f.Type()); p2 {
											lw.add(ex.structKeys(f.Type()), "", false)
											continue
										}
										for _, l := range flatten(f.Type()) {
											fk = append(fk, fieldKey(T, f.Name(), l.Path))
										}
									}
									lw.add(fk, t, ok)
								} else {
									lw.add(ex.writeKeysForType(T), t, ok)
								}
							}
						}
						// keys of the callee's write set that are not explained by its arguments stay unlocalised
						for _, k := range ks {
							if _, seen := lw.targets[k]; !seen {
								lw.bad[k] = true
							}
						}
					} else {
						lw.add(ks, "", false)
					}
					continue
				}
				// library function: memory of slice arguments, pointed-to fields of pointer arguments
				for _, a := range cc.Args {
					switch a.Type().Underlying().(type) {
					case *types.Slice:
						sliceArg(a)
					case *types.Pointer:
						switch a.(type) {
						case *ssa.FieldAddr, *ssa.IndexAddr, *ssa.Alloc:
							writePtr(a)
						}
					}
				}
			}
		}
	}
	return lw
}

// havocLoopKeys forgets what the loop may write, localised where possible.
func (ex *Exec) havocLoopKeys(fr *Frame, li *loopInfo, cur, ns *State, keys []string, regs []*ssa.Alloc) {
	lw := ex.localizeLoopWrites(fr, li, cur, keys, regs)
	var full []string
	for _, k := range keys {
		ts, ok := lw.targets[k]
		if lw.bad[k] || !ok || len(ts) == 0 {
			full = append(full, k)
			continue
		}
		srt := ex.universe[k]
		if srt == "" {
			srt = ex.seeded[k]
		}
		if srt == "" || len(srt) < 7 || srt[:7] != "(Array " {
			full = append(full, k)
			continue
		}
		_, el := splitArraySort(srt)
		t := ex.heapGet(ns, k, srt)
		for _, w := range ts {
			t = store(t, w, ex.fresh(k+"~l", el))
		}
		ns.heap[k] = ex.def(k, srt, t)
	}
	ex.havocKeys(ns, full)
}
