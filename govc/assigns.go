package main

import (
	"go/token"
	"strings"
)

// Frame (modifies) checking by write footprint: every heap write of a function that declares
// a modifies clause must hit a freshly allocated object or a declared location.

func (ex *Exec) isFreshTerm(ref string) bool {
	if ex.freshRefs[ref] {
		return true
	}
	// sub-objects / elements of fresh objects
	if strings.HasPrefix(ref, "(|sub!") || strings.HasPrefix(ref, "(|elem!") {
		// (|sub|T|f| X)  or (|elem|T| B I)
		inner := ref[strings.Index(ref, "| ")+2 : len(ref)-1]
		if strings.HasPrefix(ref, "(|elem!") {
			// first s-expression of inner
			inner = firstSexp(inner)
		}
		return ex.isFreshTerm(inner)
	}
	return false
}

func firstSexp(s string) string {
	if s == "" {
		return s
	}
	if s[0] != '(' {
		if k := strings.IndexByte(s, ' '); k >= 0 {
			if s[0] == '|' {
				j := strings.IndexByte(s[1:], '|')
				return s[:j+2]
			}
			return s[:k]
		}
		return s
	}
	d := 0
	for i, c := range s {
		if c == '(' {
			d++
		} else if c == ')' {
			d--
			if d == 0 {
				return s[:i+1]
			}
		}
	}
	return s
}

func (ex *Exec) assignsActive() bool {
	return ex.modActive && ex.specMode == 0 && !ex.dry0
}

// writeObj: a write to (key, ref) for field/cell/map keys.
func (ex *Exec) writeObj(st *State, key, ref string) {
	if !ex.isFreshTerm(ref) && !strings.HasSuffix(key, ".held") && !ex.interfering && ex.specMode == 0 {
		ex.ownWrites++
		ex.noteOwnWrite(key)
	}
	if !ex.assignsActive() || ex.isFreshTerm(ref) {
		return
	}
	// taking and releasing a mutex is not part of a function's frame (it is released again; see DESIGN 2.7)
	if strings.HasSuffix(key, ".held") {
		return
	}
	if strings.HasPrefix(key, "F|") {
		// ghost fields named by update clauses are writable by definition; handled via modAllowed too
	}
	for _, l := range ex.modAllowed {
		if l.kind == "anykey" && strings.Contains(key, l.sub) {
			return
		}
	}
	var allow []string
	allow = append(allow, "(> "+ref+" "+ex.preState.allocCtr+")")
	for _, l := range ex.modAllowed {
		if l.kind != "field" && l.kind != "map" {
			continue
		}
		for _, k := range l.keys {
			if k == key {
				allow = append(allow, eq(ref, l.ref))
			}
		}
	}
	// parts of fresh objects: their owner reference is fresh
	if owner := ex.ownerOf(ref); owner != "" {
		allow = append(allow, "(> "+owner+" "+ex.preState.allocCtr+")")
	}
	ex.obligeHere(st, "assigns", key, or(allow...), "write to "+key+" outside the modifies clause")
}

// ownerOf returns the root object term of a sub-object/element reference, if syntactically visible.
func (ex *Exec) ownerOf(ref string) string {
	for strings.HasPrefix(ref, "(|sub!") || strings.HasPrefix(ref, "(|elem!") {
		inner := ref[strings.Index(ref, "| ")+2 : len(ref)-1]
		if strings.HasPrefix(ref, "(|elem!") {
			inner = firstSexp(inner)
		}
		if inner == ref {
			break
		}
		ref = inner
		if !(strings.HasPrefix(ref, "(|sub!") || strings.HasPrefix(ref, "(|elem!")) {
			return ref
		}
	}
	return ""
}

// writeMem: a write to memory cells [lo,hi) (absolute indices) of base, for the given keys.
func (ex *Exec) writeMem(st *State, keys []string, base, lo, hi string) {
	if !ex.isFreshTerm(base) && ex.specMode == 0 {
		ex.ownWrites++
		for _, k := range keys {
			ex.noteOwnWrite(k)
		}
	}
	if !ex.assignsActive() || ex.isFreshTerm(base) || len(keys) == 0 {
		return
	}
	key := keys[0]
	for _, l := range ex.modAllowed {
		if l.kind == "anykey" && strings.Contains(key, l.sub) {
			return
		}
	}
	var allow []string
	allow = append(allow, "(> "+base+" "+ex.preState.allocCtr+")")
	allow = append(allow, app("bvuge", lo, hi)) // empty range
	for _, l := range ex.modAllowed {
		hit := false
		for _, k := range l.keys {
			if k == key {
				hit = true
			}
		}
		if !hit {
			continue
		}
		switch l.kind {
		case "mem":
			allow = append(allow, eq(base, l.base))
		case "memrange":
			allow = append(allow, and(eq(base, l.base), app("bvule", l.lo, lo), app("bvule", hi, l.hi)))
		}
	}
	ex.obligeHere(st, "assigns", key, or(allow...), "write to "+key+" outside the modifies clause")
}

func (ex *Exec) writeGlobal(st *State, key string) {
	if ex.specMode == 0 {
		ex.ownWrites++
		ex.noteOwnWrite(key)
	}
	if !ex.assignsActive() {
		return
	}
	for _, l := range ex.modAllowed {
		for _, k := range l.keys {
			if k == key {
				return
			}
		}
	}
	ex.obligeHere(st, "assigns", key, "false", "write to global "+key+" outside the modifies clause")
}

// obligeHere emits an obligation at the instruction being executed.
func (ex *Exec) obligeHere(st *State, kind, label, cond, detail string) {
	fr := ex.curFr
	if fr == nil {
		fr = ex.rootFrame
	}
	pos := ex.curPos
	if pos == token.NoPos && ex.root != nil {
		pos = ex.root.Pos()
	}
	ex.oblige(fr, st, kind, label, cond, pos, detail+": "+ex.srcLine(pos))
}

// callAssigns checks that a callee's declared write set is within the caller's.
func (ex *Exec) callAssigns(st *State, locs []modLoc) {
	if !ex.assignsActive() {
		return
	}
	for _, l := range locs {
		switch l.kind {
		case "anykey":
			ok := false
			for _, a := range ex.modAllowed {
				if a.kind == "anykey" && strings.Contains(l.sub, a.sub) {
					ok = true
				}
			}
			if !ok {
				ex.obligeHere(st, "assigns", "any:"+l.sub, "false", "callee may write any "+l.sub+" state")
			}
		case "field", "map":
			for _, k := range l.keys {
				ex.writeObj(st, k, l.ref)
			}
		case "mem":
			// whole backing array: must be allowed as a whole
			if ex.isFreshTerm(l.base) {
				continue
			}
			var allow []string
			allow = append(allow, "(> "+l.base+" "+ex.preState.allocCtr+")")
			for _, a := range ex.modAllowed {
				if a.kind == "mem" && len(a.keys) > 0 && len(l.keys) > 0 && a.keys[0] == l.keys[0] {
					allow = append(allow, eq(l.base, a.base))
				}
			}
			ex.obligeHere(st, "assigns", l.keys[0], or(allow...), "callee may write the whole backing array")
		case "memrange":
			ex.writeMem(st, l.keys, l.base, l.lo, l.hi)
		case "global":
			for _, k := range l.keys {
				ex.writeGlobal(st, k)
			}
		}
	}
}


func (ex *Exec) noteOwnWrite(key string) {
	if ex.ownWritten == nil {
		ex.ownWritten = map[string]bool{}
	}
	if !ex.ownWritten[key] {
		ex.note("this function writes %s of an object that existed before it ran (%s)", key, ex.curPosString())
	}
	ex.ownWritten[key] = true
}

func (ex *Exec) curPosString() string {
	if ex.curPos.IsValid() {
		return ex.P.pos(ex.curPos)
	}
	return "?"
}
