package main

import (
	"fmt"
	"go/types"
	"strings"
)

// Leaf is one scalar component of a flattened Go value.
type Leaf struct {
	Path string
	Sort string
}

// typeKey gives a stable name for a type (used in heap keys).
func typeKey(T types.Type) string {
	s := types.TypeString(T, func(p *types.Package) string {
		return shortPkg(p.Path())
	})
	return s
}

func namedName(T types.Type) string {
	if n, ok := types.Unalias(T).(*types.Named); ok {
		if n.Obj().Pkg() != nil {
			return n.Obj().Pkg().Path() + "." + n.Obj().Name()
		}
		return n.Obj().Name()
	}
	return ""
}

// specialSort returns leaves for library types with a hand-chosen representation.
func specialLeaves(T types.Type) ([]Leaf, bool) {
	switch namedName(T) {
	case "net/netip.Addr":
		return []Leaf{{"", sAddr}}, true
	case "time.Time":
		return []Leaf{{"", sInt}}, true
	case "sync.Mutex", "sync.RWMutex":
		return []Leaf{{".held", sBool}}, true
	case "sync.Pool", "sync.Map", "sync.WaitGroup", "sync.Once", "sync.Cond",
		"github.com/mycoria/mycoria/mgr.noCopy", "sync/atomic.noCopy", "sync.noCopy",
		"sync/atomic.align64":
		return nil, true
	case "reflect.Value":
		// carries the interface value it was made from (dynamic type tag, payload)
		return []Leaf{{".t", sInt}, {".r", sInt}}, true
	case "time.Location", "math/big.Int", "reflect.rtype":
		return []Leaf{{"", sOpq}}, true
	}
	return nil, false
}

func isSpecial(T types.Type) bool {
	_, ok := specialLeaves(T)
	return ok
}

// isPlainStruct reports a struct type that is modelled field by field.
func isPlainStruct(T types.Type) (*types.Struct, bool) {
	if isSpecial(T) {
		return nil, false
	}
	s, ok := T.Underlying().(*types.Struct)
	return s, ok
}

func bvWidth(b *types.Basic) int {
	switch b.Kind() {
	case types.Int8, types.Uint8:
		return 8
	case types.Int16, types.Uint16:
		return 16
	case types.Int32, types.Uint32:
		return 32
	case types.Int, types.Uint, types.Int64, types.Uint64, types.Uintptr, types.UntypedInt, types.UntypedRune:
		return 64
	}
	return 0
}

func isSigned(T types.Type) bool {
	if b, ok := T.Underlying().(*types.Basic); ok {
		return b.Info()&types.IsInteger != 0 && b.Info()&types.IsUnsigned == 0
	}
	return false
}

func isInteger(T types.Type) bool {
	if b, ok := T.Underlying().(*types.Basic); ok {
		return b.Info()&types.IsInteger != 0
	}
	return false
}

func intWidth(T types.Type) int {
	if b, ok := T.Underlying().(*types.Basic); ok {
		return bvWidth(b)
	}
	return 0
}

var flattenCache = map[types.Type][]Leaf{}
var flattenBusy = map[types.Type]bool{}

// flatten lists the scalar leaves of a Go value of type T.
func flatten(T types.Type) []Leaf {
	T = types.Unalias(T)
	if r, ok := flattenCache[T]; ok {
		return r
	}
	if flattenBusy[T] {
		return []Leaf{{"", sOpq}}
	}
	flattenBusy[T] = true
	r := flatten0(T)
	delete(flattenBusy, T)
	flattenCache[T] = r
	return r
}

func flatten0(T types.Type) []Leaf {
	if l, ok := specialLeaves(T); ok {
		return l
	}
	switch u := T.Underlying().(type) {
	case *types.Basic:
		switch {
		case u.Info()&types.IsBoolean != 0:
			return []Leaf{{"", sBool}}
		case u.Info()&types.IsInteger != 0:
			return []Leaf{{"", sBV(bvWidth(u))}}
		case u.Info()&types.IsString != 0:
			return []Leaf{{"", sStr}}
		case u.Kind() == types.UnsafePointer:
			return []Leaf{{"", sInt}}
		case u.Kind() == types.UntypedNil:
			return []Leaf{{"", sInt}}
		default:
			return []Leaf{{"", sOpq}} // floats, complex
		}
	case *types.Pointer, *types.Map, *types.Chan, *types.Signature:
		return []Leaf{{"", sInt}}
	case *types.Slice:
		return []Leaf{{".b", sInt}, {".o", bv64}, {".l", bv64}, {".c", bv64}}
	case *types.Interface:
		return []Leaf{{".t", sInt}, {".r", sInt}}
	case *types.Struct:
		var ls []Leaf
		for i := 0; i < u.NumFields(); i++ {
			f := u.Field(i)
			for _, l := range flatten(f.Type()) {
				ls = append(ls, Leaf{"." + f.Name() + l.Path, l.Sort})
			}
		}
		return ls
	case *types.Array:
		var ls []Leaf
		for _, l := range flatten(u.Elem()) {
			ls = append(ls, Leaf{l.Path, sArr(bv64, l.Sort)})
		}
		return ls
	case *types.Tuple:
		var ls []Leaf
		for i := 0; i < u.Len(); i++ {
			for _, l := range flatten(u.At(i).Type()) {
				ls = append(ls, Leaf{fmt.Sprintf("#%d%s", i, l.Path), l.Sort})
			}
		}
		return ls
	case *types.TypeParam:
		return []Leaf{{"", sOpq}}
	}
	return []Leaf{{"", sOpq}}
}

// fieldRange gives the leaf interval of field i inside struct S's flattening.
func fieldRange(S *types.Struct, i int) (lo, hi int) {
	for k := 0; k < i; k++ {
		lo += len(flatten(S.Field(k).Type()))
	}
	return lo, lo + len(flatten(S.Field(i).Type()))
}

func tupleRange(T *types.Tuple, i int) (lo, hi int) {
	for k := 0; k < i; k++ {
		lo += len(flatten(T.At(k).Type()))
	}
	return lo, lo + len(flatten(T.At(i).Type()))
}

// zero value term for a sort.
func zeroOf(sort string) string {
	switch {
	case sort == sBool:
		return "false"
	case sort == sInt:
		return "0"
	case sort == sStr:
		return "str_empty"
	case sort == sOpq:
		return "opq_zero"
	case strings.HasPrefix(sort, "(_ BitVec "):
		var n int
		fmt.Sscanf(sort, "(_ BitVec %d)", &n)
		return bvLit(0, n)
	case strings.HasPrefix(sort, "(Array "):
		idx, el := splitArraySort(sort)
		return "((as const (Array " + idx + " " + el + ")) " + zeroOf(el) + ")"
	}
	return "opq_zero"
}

// splitArraySort splits "(Array I E)" into I and E.
func splitArraySort(s string) (string, string) {
	inner := s[len("(Array ") : len(s)-1]
	// first sort token
	d := 0
	for i, c := range inner {
		switch c {
		case '(':
			d++
		case ')':
			d--
		case ' ':
			if d == 0 {
				return inner[:i], inner[i+1:]
			}
		}
	}
	return inner, ""
}

func zeroVal(T types.Type) Val {
	ls := flatten(T)
	v := Val{T: T, L: make([]string, len(ls))}
	for i, l := range ls {
		v.L[i] = zeroOf(l.Sort)
	}
	return v
}

func sortWidth(sort string) int {
	var n int
	if _, err := fmt.Sscanf(sort, "(_ BitVec %d)", &n); err == nil {
		return n
	}
	return 0
}
