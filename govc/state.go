package main

import (
	"fmt"
	"go/token"
	"go/types"
	"math/big"
	"sort"
	"strings"

	"golang.org/x/tools/go/ssa"
)

// Val is a symbolic Go value: one SMT term per leaf of flatten(T).
type Val struct {
	T         types.Type
	L         []string
	Clos      *Closure
	TupleClos []*Closure
	K         *big.Int // untyped integer constant (contract expressions)
	Ghost     bool     // L[0] is a mathematical map (ghost state)
}

type inputVar struct {
	Name string
	V    Val
}

// Closure is the provenance of a function value.
type Closure struct {
	Fn   *ssa.Function
	Bind []Val
}

type deferred struct {
	instr *ssa.Defer
	fn    Val
	args  []Val
	recv  *Val
}

// State is the symbolic state on one path set.
type State struct {
	pc       string
	vars     map[*ssa.Alloc]Val
	heap     map[string]string
	allocCtr string
	defers   map[int][]deferred
	dead     bool
}

func (s *State) clone() *State {
	n := &State{pc: s.pc, allocCtr: s.allocCtr, dead: s.dead}
	n.vars = make(map[*ssa.Alloc]Val, len(s.vars))
	for k, v := range s.vars {
		n.vars[k] = v
	}
	n.heap = make(map[string]string, len(s.heap))
	for k, v := range s.heap {
		n.heap[k] = v
	}
	n.defers = make(map[int][]deferred, len(s.defers))
	for k, v := range s.defers {
		n.defers[k] = append([]deferred(nil), v...)
	}
	return n
}

// ---------- Exec: one verification run over one function ----------

type Exec struct {
	assumeRequires bool // option clausesonly
	P        *Program
	C        *Contracts
	root     *ssa.Function
	rootKey  string
	cmds     []Cmd
	declared map[string]bool
	ctr      int
	obls     []*Obligation
	universe map[string]string // heap key -> sort of the stored array/const
	seeded   map[string]string // universe from the dry pass
	axiomsOn map[string]bool
	strLits  map[string]string
	typeTags map[string]int
	notes    map[string]bool // unmodelled things encountered
	trusted  map[string]bool // trusted specs used
	assumed  map[string]bool // assumed contracts used (callee contracts)
	inlined  map[string]bool
	dry      bool
	frameCtr int
	oblCount map[string]int
	storedRefs []storedRef // objects whose fields were written (for type invariants)
	frozenPrefix map[string][]string
	keyLog       map[string]bool // when set, heap keys read are recorded (dependency of an invariant)
	ownWritten   map[string]bool // heap keys this function wrote on objects that existed before it ran
	cutOrdinal   map[string]int
	cut          bool     // past the "cutafter" point of the root contract
	interfering  bool     // modelling interference at a lock acquisition (not a write of this function)
	calleeHavoc  int      // >0 while the effects of a callee are being forgotten
	stableCells  []stableCell // write-once captured local variables (see writeOnceCaptured)
	ownWrites  int         // writes of the function under verification to objects that existed before it ran
	opts     *Options
	initHeap map[string]string // initial heap terms (for old())
	initVars map[string]Val    // entry values of parameters by name
	ghostUpd bool
	preamble []string
	noDef    int
	inQuant  int
	specMode int
	invDepth int
	errors   []string
	rootFrame *Frame
	inputs   []inputVar
	preState *State
	freshParts []string
	callSiteHits map[string]int
	extraModel []ModelVar
	paramRootedCache map[*ssa.Function]bool
	freshRefs map[string]bool
	lastNow   *Val // result of the most recent time.Now() of the function under verification
	modActive bool
	modAllowed []modLoc
	dry0 bool
	curFr *Frame
	curSt *State
	fromReg bool
	ctcmpN  int
	defMemo map[string]string
	callOrdinal map[string]int
	ghostVars map[string]Val // verdicts of the last crypto primitive calls (sig_ok, aead_ok)
	curPos token.Pos
}

// stableCell: a write-once captured local and the path condition of its allocation.
type stableCell struct {
	ref, pc string
}

type storedRef struct {
	T   types.Type // struct type
	Ref string
	PC  string // path condition under which the write happened
}

type Options struct {
	InlineDepth int
	MaxInstr    int
	Safety      bool // emit safety obligations
	OnlyKinds   map[string]bool
}

func newExec(P *Program, C *Contracts, fn *ssa.Function, opts *Options) *Exec {
	theProgram = P
	ex := &Exec{P: P, C: C, root: fn, rootKey: funcKey(fn), opts: opts,
		declared: map[string]bool{}, universe: map[string]string{}, axiomsOn: map[string]bool{},
		strLits: map[string]string{}, typeTags: map[string]int{}, notes: map[string]bool{},
		trusted: map[string]bool{}, assumed: map[string]bool{}, inlined: map[string]bool{},
		oblCount: map[string]int{}, initHeap: map[string]string{}, initVars: map[string]Val{}, callSiteHits: map[string]int{}, paramRootedCache: map[*ssa.Function]bool{}, freshRefs: map[string]bool{}, ghostVars: map[string]Val{}, defMemo: map[string]string{}, callOrdinal: map[string]int{}}
	return ex
}

func (ex *Exec) emit(z3 string)           { ex.cmds = append(ex.cmds, Cmd{Z3: z3}) }
func (ex *Exec) emitAlt(z3, alt string)   { ex.cmds = append(ex.cmds, Cmd{Z3: z3, Alt: alt}) }
func (ex *Exec) note(format string, a ...any) { ex.notes[fmt.Sprintf(format, a...)] = true }

func quote(name string) string {
	if strings.ContainsAny(name, "|\\") {
		name = strings.NewReplacer("|", "!", "\\", "!").Replace(name)
	}
	return "|" + name + "|"
}

func (ex *Exec) fresh(hint, sort string) string {
	ex.ctr++
	n := quote(fmt.Sprintf("%s!%d", hint, ex.ctr))
	ex.emit("(declare-const " + n + " " + sort + ")")
	return n
}

// def names a term (keeps queries linear in size).
func (ex *Exec) def(hint, sort, term string) string {
	if len(term) < 24 && !strings.Contains(term, " ") {
		return term
	}
	if ex.noDef > 0 || ex.inQuant > 0 {
		return term
	}
	// common subexpressions share one name (identical terms denote identical values)
	if n, ok := ex.defMemo[term]; ok {
		return n
	}
	ex.ctr++
	n := quote(fmt.Sprintf("%s!%d", hint, ex.ctr))
	ex.emit("(define-fun " + n + " () " + sort + " " + term + ")")
	ex.defMemo[term] = n
	return n
}

func (ex *Exec) declFun(name string, args []string, ret string) string {
	q := quote(name)
	if !ex.declared[name] {
		ex.declared[name] = true
		// function declarations go to the global preamble
		ex.preamble = append(ex.preamble, "(declare-fun "+q+" ("+strings.Join(args, " ")+") "+ret+")")
	}
	return q
}

func (ex *Exec) assume(pc, fact string) {
	f := implies(pc, fact)
	if f == "true" {
		return
	}
	ex.emit("(assert " + f + ")")
}

// axiom asserts an unconditional fact once.
func (ex *Exec) axiom(fact string) {
	if ex.axiomsOn[fact] {
		return
	}
	ex.axiomsOn[fact] = true
	ex.emit("(assert " + fact + ")")
}

func (ex *Exec) freshVal(hint string, T types.Type) Val {
	ls := flatten(T)
	v := Val{T: T, L: make([]string, len(ls))}
	for i, l := range ls {
		v.L[i] = ex.fresh(hint+l.Path, l.Sort)
	}
	ex.constrainVal(v)
	return v
}

// constrainVal adds the always-true facts about a freshly havoced value
// (slice headers are well formed, lengths non-negative).
func (ex *Exec) constrainVal(v Val) {
	ls := flatten(v.T)
	for i, l := range ls {
		if strings.HasSuffix(l.Path, ".l") && i >= 2 && i+1 < len(ls) && strings.HasSuffix(ls[i+1].Path, ".c") &&
			strings.HasSuffix(ls[i-1].Path, ".o") && l.Sort == bv64 {
			ln, cp, off, base := v.L[i], v.L[i+1], v.L[i-1], v.L[i-2]
			ex.emit("(assert " + and(app("bvsle", bvLit(0, 64), ln), app("bvsle", ln, cp),
				app("bvsle", bvLit(0, 64), off), app("bvult", off, "#x0000100000000000"),
				app("bvult", cp, "#x0000100000000000"),
				implies(eq(base, "0"), eq(cp, bvLit(0, 64)))) + ")")
		}
		if l.Sort == sStr {
			ex.axiom(app("bvsle", bvLit(0, 64), app("strlen", v.L[i])))
		}
	}
}

// ---------- heap ----------

func (ex *Exec) heapSort(key, sort string) {
	if old, ok := ex.universe[key]; ok && old != sort {
		ex.note("heap key %s used with sorts %s and %s", key, old, sort)
	}
	ex.universe[key] = sort
}

func (ex *Exec) heapGet(st *State, key, sort string) string {
	ex.heapSort(key, sort)
	if ex.keyLog != nil {
		ex.keyLog[key] = true
	}
	if t, ok := st.heap[key]; ok {
		return t
	}
	return ex.heapInit(key, sort)
}

func (ex *Exec) heapInit(key, sort string) string {
	n := quote(key + "@0")
	if !ex.declared["H0:"+key] {
		ex.declared["H0:"+key] = true
		ex.preamble = append(ex.preamble, "(declare-const "+n+" "+sort+")")
	}
	ex.initHeap[key] = n
	return n
}

func (ex *Exec) heapSet(st *State, key, sort, term string) {
	ex.heapSort(key, sort)
	st.heap[key] = ex.def(key, sort, term)
}

// havocKeys replaces the given heap keys by fresh values.
// frozenKey reports a heap key of a frozen field (assigned only by the type's constructors) when the function
// under verification is not one of those constructors: nothing it calls can change that field of an existing object.
func (ex *Exec) frozenKey(k string) bool {
	if !strings.HasPrefix(k, "F|") || ex.C == nil {
		return false
	}
	if ex.frozenPrefix == nil {
		ex.frozenPrefix = map[string][]string{}
		for tk, tc := range ex.C.Types {
			for _, fd := range tc.Frozen {
				for _, f := range fd.Fields {
					ex.frozenPrefix["F|"+tk+"|"+f] = fd.Ctors
				}
			}
		}
	}
	for pre, ctors := range ex.frozenPrefix {
		if k == pre || strings.HasPrefix(k, pre+".") {
			if ex.calleeHavoc == 0 {
				// the constructor's own (loop) writes
				for _, c := range ctors {
					if c == ex.rootKey || strings.HasPrefix(ex.rootKey, c+"$") {
						return false
					}
				}
			}
			return true
		}
	}
	return false
}

func (ex *Exec) havocKeys(st *State, keys []string) {
	for _, k := range keys {
		if ex.frozenKey(k) || strings.HasPrefix(k, "G|called|") {
			continue
		}
		sort, ok := ex.universe[k]
		if !ok {
			sort, ok = ex.seeded[k]
			if !ok {
				continue
			}
		}
		oldArr, had := st.heap[k]
		st.heap[k] = ex.fresh(k+"~h", sort)
		if had && strings.HasPrefix(k, "C|") {
			for _, sc := range ex.stableCells {
				// under the path on which the cell was allocated: allocations in exclusive branches may share a reference term
				ex.emit("(assert (=> " + and(st.pc, sc.pc) + " (= (select " + st.heap[k] + " " + sc.ref + ") (select " + oldArr + " " + sc.ref + "))))")
			}
		}
	}
}

func (ex *Exec) allKeys() []string {
	m := map[string]bool{}
	for k := range ex.universe {
		m[k] = true
	}
	for k := range ex.seeded {
		m[k] = true
	}
	ks := make([]string, 0, len(m))
	for k := range m {
		ks = append(ks, k)
	}
	sort.Strings(ks)
	return ks
}

func (ex *Exec) havocAll(st *State, why string) {
	ex.note("havoc-all: %s", why)
	var ks []string
	for _, k := range ex.allKeys() {
		if strings.HasPrefix(k, "GI|") { // immutable globals
			continue
		}
		ks = append(ks, k)
		if s, ok := ex.seeded[k]; ok {
			ex.universe[k] = s
		}
	}
	ex.havocKeys(st, ks)
	st.allocCtr = ex.bumpAlloc(st)
}

func (ex *Exec) bumpAlloc(st *State) string {
	n := ex.fresh("allocCtr", sInt)
	ex.emit("(assert (>= " + n + " " + st.allocCtr + "))")
	return n
}

// newRef allocates a fresh object reference.
func (ex *Exec) newRef(st *State, hint string) string {
	r := ex.def(hint, sInt, "(+ "+st.allocCtr+" 1)")
	st.allocCtr = r
	ex.freshRefs[r] = true
	return r
}

// ---------- keys ----------

func fieldKey(S types.Type, field, leaf string) string {
	return "F|" + typeKey(S) + "|" + field + leaf
}

func memKey(E types.Type, leaf Leaf, nleaves int) string {
	if nleaves == 1 {
		return "M|" + sortKey(leaf.Sort)
	}
	return "M|" + typeKey(E) + "|" + leaf.Path
}

func cellKey(T types.Type, leaf Leaf, nleaves int) string {
	if nleaves == 1 {
		return "C|" + sortKey(leaf.Sort)
	}
	return "C|" + typeKey(T) + "|" + leaf.Path
}

func (ex *Exec) subRef(S types.Type, field string, ref string) string {
	f := ex.declFun("sub|"+typeKey(S)+"|"+field, []string{sInt}, sInt)
	p := ex.declFun("par|"+typeKey(S)+"|"+field, []string{sInt}, sInt)
	k := ex.declFun("refkind", []string{sInt}, sInt)
	t := app(f, ref)
	id := ex.typeTag("sub|" + typeKey(S) + "|" + field)
	if ex.inQuant > 0 {
		// the argument may mention a bound variable: state the axiom once for all arguments
		ex.axiom("(forall ((x Int)) (! (and (= (" + p + " (" + f + " x)) x) (< (" + f + " x) 0) (= (" + k + " (" + f + " x)) " + fmt.Sprint(id) + ")) :pattern ((" + f + " x))))")
		return t
	}
	ex.axiom(and(eq(app(p, t), ref), "(< "+t+" 0)", eq(app(k, t), fmt.Sprint(id))))
	return t
}

func (ex *Exec) elemRef(E types.Type, base, idx string) string {
	f := ex.declFun("elem|"+typeKey(E), []string{sInt, bv64}, sInt)
	pb := ex.declFun("elemb|"+typeKey(E), []string{sInt}, sInt)
	pi := ex.declFun("elemi|"+typeKey(E), []string{sInt}, bv64)
	k := ex.declFun("refkind", []string{sInt}, sInt)
	t := app(f, base, idx)
	id := ex.typeTag("elem|" + typeKey(E))
	if ex.inQuant > 0 {
		ex.axiom("(forall ((b Int) (i (_ BitVec 64))) (! (and (= (" + pb + " (" + f + " b i)) b) (= (" + pi + " (" + f + " b i)) i) (< (" + f + " b i) 0) (= (" + k + " (" + f + " b i)) " + fmt.Sprint(id) + ")) :pattern ((" + f + " b i))))")
		return t
	}
	ex.axiom(and(eq(app(pb, t), base), eq(app(pi, t), idx), "(< "+t+" 0)", eq(app(k, t), fmt.Sprint(id))))
	return t
}

func (ex *Exec) typeTag(name string) int {
	if id, ok := ex.typeTags[name]; ok {
		return id
	}
	id := len(ex.typeTags) + 1
	ex.typeTags[name] = id
	return id
}

func (ex *Exec) strLit(s string) string {
	if n, ok := ex.strLits[s]; ok {
		return n
	}
	if s == "" {
		ex.strLits[s] = "str_empty"
		return "str_empty"
	}
	n := quote(fmt.Sprintf("str:%q", s))
	ex.strLits[s] = n
	ex.preamble = append(ex.preamble, "(declare-const "+n+" Str)")
	ex.preamble = append(ex.preamble, fmt.Sprintf("(assert (= (strlen %s) %s))", n, bvLit(uint64(len(s)), 64)))
	ex.preamble = append(ex.preamble, fmt.Sprintf("(assert (= (strid %s) %d))", n, len(ex.strLits)))
	return n
}
