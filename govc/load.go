package main

import (
	"fmt"
	"go/ast"
	"go/token"
	"go/types"
	"os"
	"sort"
	"strings"

	"golang.org/x/tools/go/packages"
	"golang.org/x/tools/go/ssa"
	"golang.org/x/tools/go/ssa/ssautil"
)

const modPath = "github.com/mycoria/mycoria"

// Program is the loaded repository.
type Program struct {
	Fset   *token.FileSet
	Pkgs   []*packages.Package
	Prog   *ssa.Program
	SPkgs  map[string]*ssa.Package // by short path ("m", "frame", "api/dns", "" for root)
	Funcs  map[string]*ssa.Function // "m.NextRotateSwitchBlock", "frame.FrameV1.Clone"
	Repo   string
	TPkgs  map[string]*types.Package
	PPkgs  map[string]*packages.Package
	impls  map[string][]*ssa.Function // CHA cache
	inst   map[string]bool
	mutGlobals map[*ssa.Global]bool
	allFns map[*ssa.Function]bool
}

func shortPkg(path string) string {
	if path == modPath {
		return "root"
	}
	return strings.TrimPrefix(path, modPath+"/")
}

func isModulePkg(p *types.Package) bool {
	return p != nil && (p.Path() == modPath || strings.HasPrefix(p.Path(), modPath+"/"))
}

// funcKey returns "pkg.Func" or "pkg.Recv.Method".
func funcKey(f *ssa.Function) string {
	if f == nil {
		return "<nil>"
	}
	if f.Parent() != nil {
		return funcKey(f.Parent()) + "$" + f.Name()
	}
	pkg := ""
	if f.Pkg != nil {
		pkg = shortPkg(f.Pkg.Pkg.Path())
	} else if f.Object() != nil && f.Object().Pkg() != nil {
		pkg = shortPkg(f.Object().Pkg().Path())
	}
	if recv := f.Signature.Recv(); recv != nil {
		t := recv.Type()
		if p, ok := t.(*types.Pointer); ok {
			t = p.Elem()
		}
		if n, ok := t.(*types.Named); ok {
			if n.Obj().Pkg() != nil {
				pkg = shortPkg(n.Obj().Pkg().Path())
			}
			return pkg + "." + n.Obj().Name() + "." + f.Name()
		}
	}
	return pkg + "." + f.Name()
}

func loadProgram(repo string, patterns []string) (*Program, error) {
	os.Setenv("PATH", "/opt/veriftools/go1.26.8/bin:"+os.Getenv("PATH"))
	os.Setenv("GOTOOLCHAIN", "local")
	os.Setenv("GOFLAGS", "-mod=mod")
	os.Setenv("GOPROXY", "off")
	os.Setenv("GOSUMDB", "off")
	var env []string
	for _, e := range os.Environ() {
		k := e[:strings.Index(e, "=")+1]
		switch k {
		case "PATH=", "GOFLAGS=", "GOPROXY=", "GOSUMDB=", "GOTOOLCHAIN=":
			continue
		}
		env = append(env, e)
	}
	env = append(env, "GOFLAGS=-mod=mod", "GOPROXY=off", "GOSUMDB=off", "GOTOOLCHAIN=local",
		"PATH="+os.Getenv("PATH"))
	cfg := &packages.Config{
		Mode:       packages.LoadAllSyntax,
		Dir:        repo,
		Env:        env,
		BuildFlags: []string{"-tags=verif"},
	}
	pkgs, err := packages.Load(cfg, patterns...)
	if err != nil {
		return nil, err
	}
	nerr := 0
	packages.Visit(pkgs, nil, func(p *packages.Package) {
		for _, e := range p.Errors {
			if isModulePkg(p.Types) {
				fmt.Fprintf(os.Stderr, "load error: %s: %v\n", p.PkgPath, e)
				nerr++
			}
		}
	})
	if nerr > 0 {
		return nil, fmt.Errorf("%d load errors in module packages (the tree does not compile)", nerr)
	}
	prog, _ := ssautil.AllPackages(pkgs, ssa.NaiveForm|ssa.InstantiateGenerics)
	prog.Build()
	P := &Program{
		Fset: pkgs[0].Fset, Pkgs: pkgs, Prog: prog, Repo: repo,
		SPkgs: map[string]*ssa.Package{}, Funcs: map[string]*ssa.Function{},
		TPkgs: map[string]*types.Package{}, PPkgs: map[string]*packages.Package{},
		impls: map[string][]*ssa.Function{},
	}
	packages.Visit(pkgs, nil, func(p *packages.Package) {
		if p.Types != nil {
			P.TPkgs[p.PkgPath] = p.Types
			P.PPkgs[p.PkgPath] = p
		}
	})
	P.allFns = ssautil.AllFunctions(prog)
	for _, sp := range prog.AllPackages() {
		if !isModulePkg(sp.Pkg) {
			continue
		}
		P.SPkgs[shortPkg(sp.Pkg.Path())] = sp
	}
	for f := range P.allFns {
		if f.Pkg == nil && f.Object() == nil {
			continue
		}
		var tp *types.Package
		if f.Pkg != nil {
			tp = f.Pkg.Pkg
		} else if f.Object() != nil {
			tp = f.Object().Pkg()
		}
		if !isModulePkg(tp) {
			continue
		}
		if f.Synthetic != "" && f.Syntax() == nil {
			continue
		}
		P.Funcs[funcKey(f)] = f
	}
	return P, nil
}

func (P *Program) sortedFuncKeys() []string {
	ks := make([]string, 0, len(P.Funcs))
	for k := range P.Funcs {
		ks = append(ks, k)
	}
	sort.Strings(ks)
	return ks
}

func (P *Program) pos(p token.Pos) string {
	if !p.IsValid() {
		return "?"
	}
	ps := P.Fset.Position(p)
	return fmt.Sprintf("%s:%d", strings.TrimPrefix(ps.Filename, P.Repo+"/"), ps.Line)
}

// isTestFile reports whether pos lies in a _test.go file.
func (P *Program) isTestFile(p token.Pos) bool {
	fn := P.Fset.Position(p).Filename
	// testutil holds test doubles of the instance interfaces: it is test support code
	return strings.HasSuffix(fn, "_test.go") || strings.Contains(fn, "/testutil/")
}

// implementations returns the concrete methods in module code that may be the
// target of an interface method call (class-hierarchy analysis, non-test code).
func (P *Program) implementations(iface *types.Interface, method *types.Func) []*ssa.Function {
	key := types.TypeString(iface, nil) + "|" + method.Name()
	if r, ok := P.impls[key]; ok {
		return r
	}
	var res []*ssa.Function
	seen := map[*ssa.Function]bool{}
	for _, T := range P.Prog.RuntimeTypes() {
		_ = T
	}
	for _, pkg := range P.Prog.AllPackages() {
		for _, mem := range pkg.Members {
			tn, ok := mem.(*ssa.Type)
			if !ok {
				continue
			}
			if types.IsInterface(tn.Type()) {
				continue
			}
			for _, T := range []types.Type{tn.Type(), types.NewPointer(tn.Type())} {
				if !types.Implements(T, iface) {
					continue
				}
				sel := P.Prog.MethodSets.MethodSet(T).Lookup(method.Pkg(), method.Name())
				if sel == nil {
					continue
				}
				fn := P.Prog.MethodValue(sel)
				if fn == nil || seen[fn] {
					continue
				}
				if tn.Object() != nil && P.isTestFile(tn.Object().Pos()) {
					continue
				}
				// rapid type analysis: only types that non-test module code instantiates can be receivers
				if isModulePkg(tn.Object().Pkg()) && !P.instantiated()[typeKey(tn.Type())] {
					continue
				}
				seen[fn] = true
				res = append(res, fn)
			}
		}
	}
	sort.Slice(res, func(i, j int) bool { return funcKey(res[i]) < funcKey(res[j]) })
	P.impls[key] = res
	return res
}

// funcDecl returns the AST of the function if available.
func funcDecl(f *ssa.Function) *ast.FuncDecl {
	if d, ok := f.Syntax().(*ast.FuncDecl); ok {
		return d
	}
	return nil
}

var srcCache = map[string][]string{}

func (P *Program) sourceLine(file string, line int) string {
	ls, ok := srcCache[file]
	if !ok {
		data, err := os.ReadFile(file)
		if err == nil {
			ls = strings.Split(string(data), "\n")
		}
		srcCache[file] = ls
	}
	if line-1 < len(ls) && line >= 1 {
		return strings.TrimSpace(ls[line-1])
	}
	return ""
}


// instantiated returns the named module types that non-test module code allocates or converts to an interface.
func (P *Program) instantiated() map[string]bool {
	if P.inst != nil {
		return P.inst
	}
	P.inst = map[string]bool{}
	cur := ""
	mark := func(T types.Type) {
		if p, ok := T.Underlying().(*types.Pointer); ok {
			T = p.Elem()
		}
		if n, ok := types.Unalias(T).(*types.Named); ok {
			if os.Getenv("GOVC_RTA") != "" && typeKey(n) == os.Getenv("GOVC_RTA") {
				fmt.Fprintln(os.Stderr, "RTA mark", typeKey(n), "by", cur)
			}
			P.inst[typeKey(n)] = true
		}
	}
	for f := range P.allFns {
		cur = f.String() + " synthetic=" + f.Synthetic
		if len(f.Blocks) == 0 || P.isTestFile(f.Pos()) {
			continue
		}
		root := f
		for root.Parent() != nil {
			root = root.Parent()
		}
		if P.isTestFile(root.Pos()) {
			continue
		}
		var tp *types.Package
		if f.Pkg != nil {
			tp = f.Pkg.Pkg
		} else if root.Pkg != nil {
			tp = root.Pkg.Pkg
		}
		if !isModulePkg(tp) {
			continue
		}
		isInit := f.Synthetic != "" && f.Name() == "init"
		for _, b := range f.Blocks {
			for _, in := range b.Instrs {
				if isInit {
					// package initialisers: only values stored in (non-blank) globals survive;
					// "var _ Iface = &T{}" assertions do not instantiate T
					if st, ok := in.(*ssa.Store); ok {
						if _, isG := st.Addr.(*ssa.Global); isG {
							mark(st.Val.Type())
							if mi, ok := st.Val.(*ssa.MakeInterface); ok {
								mark(mi.X.Type())
							}
						}
					}
					continue
				}
				switch in := in.(type) {
				case *ssa.Alloc:
					if et := in.Type().(*types.Pointer).Elem(); !isPointer(et) {
						mark(et)
					}
				case *ssa.MakeInterface:
					mark(in.X.Type())
				}
			}
		}
	}
	return P.inst
}

func isPointer(T types.Type) bool {
	_, ok := T.Underlying().(*types.Pointer)
	return ok
}


// mutableGlobals: package-level variables of the module that some non-initialiser function assigns
// (directly or through a field/element address). All other globals keep their initial value forever.
func (P *Program) mutableGlobals() map[*ssa.Global]bool {
	if P.mutGlobals != nil {
		return P.mutGlobals
	}
	P.mutGlobals = map[*ssa.Global]bool{}
	for f := range P.allFns {
		if len(f.Blocks) == 0 || (f.Synthetic != "" && f.Name() == "init") {
			continue
		}
		for _, b := range f.Blocks {
			for _, in := range b.Instrs {
				var addr ssa.Value
				switch in := in.(type) {
				case *ssa.Store:
					addr = in.Addr
				case *ssa.MapUpdate:
					continue
				default:
					// a global whose address escapes into a call may be written there
					if ci, ok := in.(ssa.CallInstruction); ok {
						for _, a := range ci.Common().Args {
							if g, ok := a.(*ssa.Global); ok {
								P.mutGlobals[g] = true
							}
						}
					}
					continue
				}
				for addr != nil {
					switch x := addr.(type) {
					case *ssa.Global:
						P.mutGlobals[x] = true
						addr = nil
					case *ssa.FieldAddr:
						addr = x.X
					case *ssa.IndexAddr:
						addr = x.X
					default:
						addr = nil
					}
				}
			}
		}
	}
	return P.mutGlobals
}
