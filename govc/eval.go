package main

import (
	"fmt"
	"go/constant"
	"go/token"
	"go/types"
	"math/big"
	"strconv"
	"strings"

	"golang.org/x/tools/go/ssa"
)

// Env evaluates contract expressions to symbolic values.
type Env struct {
	ex    *Exec
	fr    *Frame
	st    *State
	old   *State
	vars  map[string]Val
	pkg   *types.Package
	pos   token.Pos
	quant bool // expression contained a quantifier
	bound int
}

type evalError struct{ msg string }

func (e *evalError) Error() string { return e.msg }

func (en *Env) fail(format string, a ...any) { panic(&evalError{fmt.Sprintf(format, a...)}) }

// evalBool evaluates a boolean contract expression.
func (en *Env) evalBool(e Expr) (term string, err error) {
	defer func() {
		if r := recover(); r != nil {
			if ee, ok := r.(*evalError); ok {
				err = ee
				return
			}
			panic(r)
		}
	}()
	en.ex.noDef++
	defer func() { en.ex.noDef-- }()
	v := en.eval(e)
	if len(v.L) != 1 || flatten(v.T)[0].Sort != sBool {
		return "", fmt.Errorf("expression %s is not boolean", exprString(e))
	}
	return v.L[0], nil
}

func (en *Env) evalVal(e Expr) (v Val, err error) {
	defer func() {
		if r := recover(); r != nil {
			if ee, ok := r.(*evalError); ok {
				err = ee
				return
			}
			panic(r)
		}
	}()
	en.ex.noDef++
	defer func() { en.ex.noDef-- }()
	return en.eval(e), nil
}

var untypedInt = types.Typ[types.UntypedInt]

func boolVal(t string) Val { return Val{T: types.Typ[types.Bool], L: []string{t}} }

func constInt(k *big.Int) Val { return Val{T: untypedInt, K: k} }

// coerce turns an untyped constant into a value of type T.
func (en *Env) coerce(v Val, T types.Type) Val {
	if v.K == nil {
		return v
	}
	ls := flatten(T)
	if len(ls) != 1 {
		en.fail("cannot use constant as %s", typeKey(T))
	}
	w := sortWidth(ls[0].Sort)
	if w == 0 {
		if ls[0].Sort == sInt {
			return Val{T: T, L: []string{v.K.String()}}
		}
		en.fail("cannot use integer constant as %s", typeKey(T))
	}
	m := new(big.Int).Lsh(big.NewInt(1), uint(w))
	k := new(big.Int).Mod(v.K, m)
	return Val{T: T, L: []string{bvLit(k.Uint64(), w)}}
}

func (en *Env) unify(x, y Val) (Val, Val) {
	if x.K != nil && y.K == nil {
		return en.coerce(x, y.T), y
	}
	if y.K != nil && x.K == nil {
		return x, en.coerce(y, x.T)
	}
	return x, y
}

func (en *Env) eval(e Expr) Val {
	switch e := e.(type) {
	case *ELit:
		switch e.Kind {
		case "int":
			k, ok := new(big.Int).SetString(e.Text, 0)
			if !ok {
				en.fail("bad integer %q", e.Text)
			}
			return constInt(k)
		case "bool":
			return boolVal(e.Text)
		case "string":
			s, err := strconv.Unquote(`"` + e.Text + `"`)
			if err != nil {
				s = e.Text
			}
			return Val{T: types.Typ[types.String], L: []string{en.ex.strLit(s)}}
		case "nil":
			return Val{T: types.Typ[types.UntypedNil], L: []string{"0"}}
		}
	case *EIdent:
		return en.ident(e.Name)
	case *ESel:
		return en.selector(e)
	case *EIndex:
		return en.index(e)
	case *ESlice:
		x := en.eval(e.X)
		if _, ok := x.T.Underlying().(*types.Slice); !ok {
			en.fail("slicing non-slice in contract")
		}
		lo := bvLit(0, 64)
		hi := x.L[2]
		if e.Lo != nil {
			lo = en.ex.toInt64(en.coerce(en.eval(e.Lo), types.Typ[types.Int]))
		}
		if e.Hi != nil {
			hi = en.ex.toInt64(en.coerce(en.eval(e.Hi), types.Typ[types.Int]))
		}
		return Val{T: x.T, L: []string{x.L[0], app("bvadd", x.L[1], lo), app("bvsub", hi, lo), app("bvsub", x.L[3], lo)}}
	case *ECall:
		return en.callExpr(e)
	case *EUnary:
		x := en.eval(e.X)
		switch e.Op {
		case "!":
			return boolVal(not(x.L[0]))
		case "-":
			if x.K != nil {
				return constInt(new(big.Int).Neg(x.K))
			}
			return Val{T: x.T, L: []string{app("bvneg", x.L[0])}}
		case "^":
			if x.K != nil {
				return constInt(new(big.Int).Not(x.K))
			}
			return Val{T: x.T, L: []string{app("bvnot", x.L[0])}}
		}
	case *EBinary:
		return en.binary(e)
	case *ECond:
		c := en.eval(e.C)
		a, b := en.unify(en.eval(e.A), en.eval(e.B))
		if a.K != nil {
			a, b = en.coerce(a, types.Typ[types.Int]), en.coerce(b, types.Typ[types.Int])
		}
		out := Val{T: a.T, L: make([]string, len(a.L)), Ghost: a.Ghost}
		for i := range a.L {
			out.L[i] = ite(c.L[0], a.L[i], b.L[i])
		}
		return out
	case *EQuant:
		en.quant = true
		saved := map[string]*Val{}
		var binders []string
		var guards []string
		for _, qv := range e.Vars {
			T := en.resolveType(qv.Type)
			ls := flatten(T)
			if len(ls) != 1 {
				en.fail("quantified variable %s must be scalar", qv.Name)
			}
			en.bound++
			nm := fmt.Sprintf("q%d_%s", en.bound, qv.Name)
			binders = append(binders, "("+nm+" "+ls[0].Sort+")")
			if old, ok := en.vars[qv.Name]; ok {
				o := old
				saved[qv.Name] = &o
			} else {
				saved[qv.Name] = nil
			}
			en.vars[qv.Name] = Val{T: T, L: []string{nm}}
		}
		en.ex.inQuant++
		body := en.eval(e.Body)
		en.ex.inQuant--
		for n, o := range saved {
			if o == nil {
				delete(en.vars, n)
			} else {
				en.vars[n] = *o
			}
		}
		_ = guards
		q := "forall"
		if !e.Forall {
			q = "exists"
		}
		return boolVal("(" + q + " (" + strings.Join(binders, " ") + ") " + body.L[0] + ")")
	}
	en.fail("cannot evaluate %s", exprString(e))
	return Val{}
}

// ident resolves a name: bound variable, local, package-level object.
func (en *Env) ident(name string) Val {
	if v, ok := en.vars[name]; ok {
		return v
	}
	if name == "time_now" {
		if en.ex.lastNow == nil {
			en.fail("time_now: the function has not read the clock")
		}
		return *en.ex.lastNow
	}
	// inside old(): parameters denote their entry values
	if en.fr != nil && en.old != nil && en.st == en.old && en.fr.params != nil {
		if v, ok := en.fr.params[name]; ok {
			return v
		}
	}
	// function locals
	if en.fr != nil {
		if a := en.findLocal(name); a != nil {
			if en.fr.regs[a] {
				if v, ok := en.st.vars[a]; ok {
					return v
				}
				return zeroVal(a.Type().(*types.Pointer).Elem())
			}
			if pv, ok := en.fr.vals[a]; ok {
				return en.ex.loadObj(en.st, a.Type().(*types.Pointer).Elem(), pv.L[0])
			}
		}
	}
	// variables captured by a function literal: the current content of the captured variable
	if en.fr != nil {
		for _, fv := range en.fr.fn.FreeVars {
			if fv.Name() == name {
				if pv, ok := en.fr.vals[fv]; ok {
					return en.ex.loadObj(en.st, fv.Type().(*types.Pointer).Elem(), pv.L[0])
				}
			}
		}
	}
	// package scope
	if en.pkg != nil {
		if obj := en.pkg.Scope().Lookup(name); obj != nil {
			return en.object(obj)
		}
	}
	if obj := types.Universe.Lookup(name); obj != nil {
		if c, ok := obj.(*types.Const); ok {
			return en.constObj(c)
		}
	}
	en.fail("unknown name %q", name)
	return Val{}
}

func (en *Env) findLocal(name string) *ssa.Alloc {
	var best *ssa.Alloc
	if name == "rangeindex" && en.pos.IsValid() {
		// hidden index of the range loop the clause belongs to: the one declared nearest to the clause's loop
		dist := func(a *ssa.Alloc) int {
			d := int(a.Pos()) - int(en.pos)
			if d < 0 {
				d = -d
			}
			return d
		}
		for _, b := range en.fr.fn.Blocks {
			for _, in := range b.Instrs {
				if a, ok := in.(*ssa.Alloc); ok && a.Comment == name {
					if best == nil || dist(a) < dist(best) {
						best = a
					}
				}
			}
		}
		return best
	}
	for _, b := range en.fr.fn.Blocks {
		for _, in := range b.Instrs {
			a, ok := in.(*ssa.Alloc)
			if !ok || a.Comment != name {
				continue
			}
			if best == nil {
				best = a
				continue
			}
			// prefer the latest declaration before the reference position
			if en.pos.IsValid() && a.Pos() <= en.pos && a.Pos() > best.Pos() {
				best = a
			}
			if en.pos.IsValid() && best.Pos() > en.pos && a.Pos() <= en.pos {
				best = a
			}
		}
	}
	return best
}

func (en *Env) object(obj types.Object) Val {
	switch o := obj.(type) {
	case *types.Const:
		return en.constObj(o)
	case *types.Var:
		// global variable
		if sp := en.ex.P.Prog.Package(o.Pkg()); sp != nil {
			if g, ok := sp.Members[o.Name()].(*ssa.Global); ok {
				return en.ex.loadGlobal(en.st, g)
			}
		}
	}
	en.fail("cannot use %s in a contract", obj.Name())
	return Val{}
}

func (en *Env) constObj(c *types.Const) Val {
	switch c.Val().Kind() {
	case constant.Int:
		k, _ := new(big.Int).SetString(c.Val().ExactString(), 10)
		if b, ok := c.Type().Underlying().(*types.Basic); ok && b.Info()&types.IsUntyped != 0 {
			return constInt(k)
		}
		return en.coerce(constInt(k), c.Type())
	case constant.Bool:
		return boolVal(fmt.Sprint(constant.BoolVal(c.Val())))
	case constant.String:
		return Val{T: c.Type(), L: []string{en.ex.strLit(constant.StringVal(c.Val()))}}
	}
	en.fail("unsupported constant %s", c.Name())
	return Val{}
}

func (en *Env) lookupPackage(short string) *types.Package {
	// imported by the current package?
	if en.pkg != nil {
		for _, imp := range en.pkg.Imports() {
			if imp.Name() == short {
				return imp
			}
		}
	}
	for path, p := range en.ex.P.TPkgs {
		if p.Name() == short && isModulePkg(p) {
			_ = path
			return p
		}
	}
	for _, p := range en.ex.P.TPkgs {
		if p.Name() == short {
			return p
		}
	}
	return nil
}

func (en *Env) selector(e *ESel) Val {
	// package-qualified name
	if id, ok := e.X.(*EIdent); ok {
		if _, bound := en.vars[id.Name]; !bound && (en.fr == nil || en.findLocal(id.Name) == nil) {
			if en.pkg == nil || en.pkg.Scope().Lookup(id.Name) == nil {
				if p := en.lookupPackage(id.Name); p != nil {
					obj := p.Scope().Lookup(e.Name)
					if obj == nil {
						en.fail("%s.%s not found", id.Name, e.Name)
					}
					return en.object(obj)
				}
			}
		}
	}
	x := en.eval(e.X)
	return en.fieldOf(x, e.Name)
}

// fieldOf reads field name of a struct value or pointer-to-struct value (ghost fields included).
func (en *Env) fieldOf(x Val, name string) Val {
	T := x.T
	ptr := false
	if p, ok := T.Underlying().(*types.Pointer); ok {
		T = p.Elem()
		ptr = true
	}
	// interface with a unique implementation: use the payload
	if _, ok := T.Underlying().(*types.Interface); ok && len(x.L) == 2 {
		if impl := en.ex.uniqueImpl(T); impl != nil {
			return en.fieldOf(Val{T: impl, L: []string{x.L[1]}}, name)
		}
		en.fail("field %s of interface value", name)
	}
	// ghost field?
	if tc := en.ex.C.Types[typeContractKey(T)]; tc != nil && ptr {
		for _, g := range tc.Ghosts {
			if g.Name == name {
				return en.ghostField(T, g, x.L[0])
			}
		}
	}
	S, ok := T.Underlying().(*types.Struct)
	if !ok || isSpecial(T) {
		// pseudo fields on special types
		if v, ok := en.pseudoField(x, name); ok {
			return v
		}
		en.fail("%s has no field %s", typeKey(x.T), name)
	}
	obj, path, _ := types.LookupFieldOrMethod(T, true, nil, name)
	if obj == nil {
		// unexported field from another package: search manually
		for i := 0; i < S.NumFields(); i++ {
			if S.Field(i).Name() == name {
				path = []int{i}
				obj = S.Field(i)
			}
		}
		if obj == nil {
			en.fail("%s has no field %s", typeKey(T), name)
		}
	}
	if _, isVar := obj.(*types.Var); !isVar {
		en.fail("%s.%s is not a field", typeKey(T), name)
	}
	cur := x
	curT := T
	curPtr := ptr
	for _, idx := range path {
		CS := curT.Underlying().(*types.Struct)
		f := CS.Field(idx)
		if _, plain := isPlainStruct(f.Type()); curPtr && plain {
			// a nested struct of an object is itself an object (sub-reference): ghost fields and further fields resolve on it
			cur = Val{T: types.NewPointer(f.Type()), L: []string{en.ex.subRef(curT, f.Name(), cur.L[0])}}
			curT = f.Type()
			curPtr = true
			continue
		}
		if curPtr {
			cur = en.ex.loadField(en.st, curT, f, cur.L[0])
			// slice headers stored in the heap are well formed in every state
			if _, isSl := f.Type().Underlying().(*types.Slice); isSl && len(cur.L) == 4 && en.ex.inQuant == 0 {
				en.ex.assume("true", and(nonNeg(cur.L[2]), app("bvsle", cur.L[2], cur.L[3]), nonNeg(cur.L[1]),
					app("bvult", cur.L[1], "#x0000100000000000"), app("bvult", cur.L[3], "#x0000100000000000"),
					implies(eq(cur.L[0], "0"), eq(cur.L[3], bvLit(0, 64)))))
			}
		} else {
			lo, hi := fieldRange(CS, idx)
			cur = Val{T: f.Type(), L: cur.L[lo:hi]}
		}
		curT = f.Type()
		curPtr = false
		if p, ok := curT.Underlying().(*types.Pointer); ok {
			curT = p.Elem()
			curPtr = true
		}
	}
	return cur
}

func typeContractKey(T types.Type) string {
	if n, ok := types.Unalias(T).(*types.Named); ok && n.Obj().Pkg() != nil {
		return shortPkg(n.Obj().Pkg().Path()) + "." + n.Obj().Name()
	}
	return typeKey(T)
}

// pseudoField gives access to components of specially modelled values.
func (en *Env) pseudoField(x Val, name string) (Val, bool) {
	switch namedName(x.T) {
	case "sync.Mutex", "sync.RWMutex":
		if name == "held" {
			return boolVal(x.L[0]), true
		}
	}
	return Val{}, false
}

func (en *Env) ghostField(S types.Type, g GhostField, ref string) Val {
	T := en.resolveType(g.Type)
	if mt, ok := T.(*types.Map); ok {
		ks, vs := flatten(mt.Key()), flatten(mt.Elem())
		if len(ks) != 1 || len(vs) != 1 {
			en.fail("ghost map %s must have scalar key and value", g.Name)
		}
		srt := sArr(ks[0].Sort, vs[0].Sort)
		arr := en.ex.heapGet(en.st, fieldKey(S, g.Name, ""), sArr(sInt, srt))
		return Val{T: T, L: []string{sel(arr, ref)}, Ghost: true}
	}
	ls := flatten(T)
	out := Val{T: T, L: make([]string, len(ls))}
	for i, l := range ls {
		out.L[i] = sel(en.ex.heapGet(en.st, fieldKey(S, g.Name, l.Path), sArr(sInt, l.Sort)), ref)
	}
	return out
}

func (en *Env) index(e *EIndex) Val {
	x := en.eval(e.X)
	if x.Ghost {
		mt := x.T.(*types.Map)
		k := en.coerce(en.eval(e.I), mt.Key())
		return Val{T: mt.Elem(), L: []string{sel(x.L[0], k.L[0])}}
	}
	switch xt := x.T.Underlying().(type) {
	case *types.Slice:
		i := en.ex.toInt64(en.coerce(en.eval(e.I), types.Typ[types.Int]))
		return en.ex.loadElem(en.st, xt.Elem(), x.L[0], app("bvadd", x.L[1], i))
	case *types.Array:
		i := en.ex.toInt64(en.coerce(en.eval(e.I), types.Typ[types.Int]))
		out := Val{T: xt.Elem(), L: make([]string, len(x.L))}
		for k := range x.L {
			out.L[k] = sel(x.L[k], i)
		}
		return out
	case *types.Map:
		k := en.coerce(en.eval(e.I), xt.Key())
		v, _ := en.ex.mapGet(en.st, x.T, x.L[0], k)
		return v
	case *types.Basic:
		i := en.ex.toInt64(en.coerce(en.eval(e.I), types.Typ[types.Int]))
		return Val{T: types.Typ[types.Uint8], L: []string{app("str_at", x.L[0], i)}}
	}
	en.fail("cannot index %s", typeKey(x.T))
	return Val{}
}

func (en *Env) binary(e *EBinary) Val {
	switch e.Op {
	case "==>":
		return boolVal(implies(en.eval(e.X).L[0], en.eval(e.Y).L[0]))
	case "<==>":
		return boolVal(eq(en.eval(e.X).L[0], en.eval(e.Y).L[0]))
	case "&&":
		return boolVal(and(en.eval(e.X).L[0], en.eval(e.Y).L[0]))
	case "||":
		return boolVal(or(en.eval(e.X).L[0], en.eval(e.Y).L[0]))
	}
	x, y := en.eval(e.X), en.eval(e.Y)
	if e.Op == "<<" || e.Op == ">>" {
		return en.shift(e.Op, x, y)
	}
	if x.K != nil && y.K != nil {
		return en.constFold(e.Op, x.K, y.K)
	}
	x, y = en.unify(x, y)
	switch e.Op {
	case "==", "!=":
		var t string
		if x.T == types.Typ[types.UntypedNil] || y.T == types.Typ[types.UntypedNil] {
			o := x
			if x.T == types.Typ[types.UntypedNil] {
				o = y
			}
			t = eq(o.L[0], "0")
		} else {
			if len(x.L) != len(y.L) {
				en.fail("comparing values of different shape: %s", exprString(e))
			}
			t = en.ex.valEq(x, y, nil, nil)
			// strings: comparison with "" is a length test
			if len(x.L) == 1 && flatten(x.T)[0].Sort == sStr {
				if y.L[0] == "str_empty" {
					t = eq(app("strlen", x.L[0]), bvLit(0, 64))
				} else if x.L[0] == "str_empty" {
					t = eq(app("strlen", y.L[0]), bvLit(0, 64))
				}
			}
		}
		if e.Op == "!=" {
			t = not(t)
		}
		return boolVal(t)
	}
	ls := flatten(x.T)
	if len(ls) != 1 {
		en.fail("arithmetic on composite value: %s", exprString(e))
	}
	if ls[0].Sort == sInt { // references / times / tags: integer ordering
		op := map[string]string{"<": "<", "<=": "<=", ">": ">", ">=": ">=", "+": "+", "-": "-"}[e.Op]
		if op == "" {
			en.fail("operator %s on Int", e.Op)
		}
		if e.Op == "+" || e.Op == "-" {
			return Val{T: x.T, L: []string{app(op, x.L[0], y.L[0])}}
		}
		return boolVal(app(op, x.L[0], y.L[0]))
	}
	if ls[0].Sort == sStr && e.Op == "+" { // string concatenation, same term as the executed x + y
		return Val{T: x.T, L: []string{app("str_cat", x.L[0], y.L[0])}}
	}
	w := sortWidth(ls[0].Sort)
	if w == 0 {
		en.fail("arithmetic on %s: %s", typeKey(x.T), exprString(e))
	}
	if w2 := sortWidth(flatten(y.T)[0].Sort); w2 != w {
		en.fail("operands of different width (%d vs %d) in %s", w, w2, exprString(e))
	}
	signed := isSigned(x.T)
	a, b := x.L[0], y.L[0]
	cmp := map[bool]map[string]string{
		true:  {"<": "bvslt", "<=": "bvsle", ">": "bvsgt", ">=": "bvsge"},
		false: {"<": "bvult", "<=": "bvule", ">": "bvugt", ">=": "bvuge"}}[signed]
	if op, ok := cmp[e.Op]; ok {
		return boolVal(app(op, a, b))
	}
	ar := map[string]string{"+": "bvadd", "-": "bvsub", "*": "bvmul", "&": "bvand", "|": "bvor", "^": "bvxor"}
	if op, ok := ar[e.Op]; ok {
		return Val{T: x.T, L: []string{app(op, a, b)}}
	}
	switch e.Op {
	case "&^":
		return Val{T: x.T, L: []string{app("bvand", a, app("bvnot", b))}}
	case "/":
		if signed {
			return Val{T: x.T, L: []string{app("bvsdiv", a, b)}}
		}
		return Val{T: x.T, L: []string{app("bvudiv", a, b)}}
	case "%":
		if signed {
			return Val{T: x.T, L: []string{app("bvsrem", a, b)}}
		}
		return Val{T: x.T, L: []string{app("bvurem", a, b)}}
	}
	en.fail("unsupported operator %s", e.Op)
	return Val{}
}

func (en *Env) shift(op string, x, y Val) Val {
	if x.K != nil && y.K != nil {
		n := uint(y.K.Uint64())
		if op == "<<" {
			return constInt(new(big.Int).Lsh(x.K, n))
		}
		return constInt(new(big.Int).Rsh(x.K, n))
	}
	if x.K != nil {
		x = en.coerce(x, types.Typ[types.Int])
	}
	w := sortWidth(flatten(x.T)[0].Sort)
	var cnt, big_ string
	if y.K != nil {
		if y.K.Cmp(big.NewInt(int64(w))) >= 0 {
			big_ = "true"
			cnt = bvLit(0, w)
		} else {
			big_ = "false"
			cnt = bvLit(y.K.Uint64(), w)
		}
	} else {
		wy := sortWidth(flatten(y.T)[0].Sort)
		cnt = y.L[0]
		switch {
		case wy > w:
			big_ = app("bvuge", cnt, bvLit(uint64(w), wy))
			cnt = fmt.Sprintf("((_ extract %d 0) %s)", w-1, cnt)
		case wy < w:
			cnt = fmt.Sprintf("((_ zero_extend %d) %s)", w-wy, cnt)
			big_ = "false"
		default:
			big_ = app("bvuge", cnt, bvLit(uint64(w), w))
		}
	}
	a := x.L[0]
	var t string
	switch {
	case op == "<<":
		t = ite(big_, bvLit(0, w), app("bvshl", a, cnt))
	case isSigned(x.T):
		t = ite(big_, app("bvashr", a, bvLit(uint64(w-1), w)), app("bvashr", a, cnt))
	default:
		t = ite(big_, bvLit(0, w), app("bvlshr", a, cnt))
	}
	return Val{T: x.T, L: []string{t}}
}

func (en *Env) constFold(op string, a, b *big.Int) Val {
	r := new(big.Int)
	switch op {
	case "+":
		return constInt(r.Add(a, b))
	case "-":
		return constInt(r.Sub(a, b))
	case "*":
		return constInt(r.Mul(a, b))
	case "/":
		return constInt(r.Quo(a, b))
	case "%":
		return constInt(r.Rem(a, b))
	case "&":
		return constInt(r.And(a, b))
	case "|":
		return constInt(r.Or(a, b))
	case "^":
		return constInt(r.Xor(a, b))
	case "==":
		return boolVal(fmt.Sprint(a.Cmp(b) == 0))
	case "!=":
		return boolVal(fmt.Sprint(a.Cmp(b) != 0))
	case "<":
		return boolVal(fmt.Sprint(a.Cmp(b) < 0))
	case "<=":
		return boolVal(fmt.Sprint(a.Cmp(b) <= 0))
	case ">":
		return boolVal(fmt.Sprint(a.Cmp(b) > 0))
	case ">=":
		return boolVal(fmt.Sprint(a.Cmp(b) >= 0))
	}
	en.fail("constant operator %s", op)
	return Val{}
}

// resolveType parses a type written in a contract.
func (en *Env) resolveType(s string) types.Type {
	s = strings.TrimSpace(s)
	switch {
	case strings.HasPrefix(s, "[]"):
		return types.NewSlice(en.resolveType(s[2:]))
	case strings.HasPrefix(s, "*"):
		return types.NewPointer(en.resolveType(s[1:]))
	case strings.HasPrefix(s, "map["):
		d := 0
		for i := 3; i < len(s); i++ {
			if s[i] == '[' {
				d++
			} else if s[i] == ']' {
				d--
				if d == 0 {
					return types.NewMap(en.resolveType(s[4:i]), en.resolveType(s[i+1:]))
				}
			}
		}
	case strings.HasPrefix(s, "["):
		k := strings.Index(s, "]")
		n, _ := strconv.Atoi(s[1:k])
		return types.NewArray(en.resolveType(s[k+1:]), int64(n))
	}
	if obj := types.Universe.Lookup(s); obj != nil {
		if tn, ok := obj.(*types.TypeName); ok {
			return tn.Type()
		}
	}
	if s == "ref" {
		return types.Typ[types.UnsafePointer]
	}
	if k := strings.Index(s, "."); k >= 0 {
		if p := en.lookupPackage(s[:k]); p != nil {
			if obj := p.Scope().Lookup(s[k+1:]); obj != nil {
				return obj.Type()
			}
		}
		en.fail("unknown type %s", s)
	}
	if en.pkg != nil {
		if obj := en.pkg.Scope().Lookup(s); obj != nil {
			if tn, ok := obj.(*types.TypeName); ok {
				return tn.Type()
			}
		}
	}
	en.fail("unknown type %s", s)
	return nil
}

// callExpr handles builtins, old(), conversions, predicates and pure method calls.
func (en *Env) callExpr(e *ECall) Val {
	// conversion with a composite type head
	if ty, ok := e.Fun.(*EType); ok {
		T := en.resolveType(ty.Text)
		return en.convertTo(en.eval(e.Args[0]), T)
	}
	if id, ok := e.Fun.(*EIdent); ok {
		switch id.Name {
		case "old":
			if en.old == nil {
				en.fail("old() not available here")
			}
			saved := en.st
			en.st = en.old
			v := en.eval(e.Args[0])
			en.st = saved
			return v
		case "called":
			// called("pkg.Func"): the function under verification has called it on this path
			lit, ok := e.Args[0].(*ELit)
			if !ok || lit.Kind != "string" {
				en.fail("called() needs a string literal")
			}
			t, ok := en.st.heap["G|called|"+strings.Trim(lit.Text, "\"")]
			if !ok {
				return boolVal("false")
			}
			return boolVal(t)
		case "oldheap":
			// the entry heap read through the CURRENT values of locals (old() reads locals in the entry state too)
			if en.old == nil {
				en.fail("oldheap() not available here")
			}
			saved := en.st
			h := saved.clone()
			h.heap = en.old.heap
			h.allocCtr = en.old.allocCtr
			en.st = h
			v := en.eval(e.Args[0])
			en.st = saved
			return v
		case "len", "cap":
			x := en.eval(e.Args[0])
			switch x.T.Underlying().(type) {
			case *types.Slice:
				if id.Name == "len" {
					return Val{T: types.Typ[types.Int], L: []string{x.L[2]}}
				}
				return Val{T: types.Typ[types.Int], L: []string{x.L[3]}}
			case *types.Basic:
				return Val{T: types.Typ[types.Int], L: []string{app("strlen", x.L[0])}}
			case *types.Array:
				return constInt(big.NewInt(x.T.Underlying().(*types.Array).Len()))
			case *types.Chan:
				if id.Name == "cap" {
					return Val{T: types.Typ[types.Int], L: []string{app(en.ex.declFun("chancap", []string{sInt}, bv64), x.L[0])}}
				}
			}
			en.fail("len of %s", typeKey(x.T))
		case "base":
			x := en.eval(e.Args[0])
			// every reference that exists in a state was allocated before it
			if en.ex.inQuant == 0 && en.st != nil {
				en.ex.assume("true", "(<= "+x.L[0]+" "+en.st.allocCtr+")")
			}
			return Val{T: types.Typ[types.UnsafePointer], L: []string{x.L[0]}}
		case "off":
			x := en.eval(e.Args[0])
			return Val{T: types.Typ[types.Int], L: []string{x.L[1]}}
		case "has":
			m := en.eval(e.Args[0])
			mt, ok := m.T.Underlying().(*types.Map)
			if !ok {
				en.fail("has() needs a map")
			}
			k := en.coerce(en.eval(e.Args[1]), mt.Key())
			_, present := en.ex.mapGet(en.st, m.T, m.L[0], k)
			return boolVal(present)
		case "typeis":
			x := en.eval(e.Args[0])
			T := en.resolveType(exprString(e.Args[1]))
			return boolVal(eq(x.L[0], fmt.Sprint(en.ex.typeTag("T:"+typeKey(T)))))
		case "dyn":
			// dyn(x, T): payload of interface x viewed as T
			x := en.eval(e.Args[0])
			T := en.resolveType(exprString(e.Args[1]))
			return en.ex.unbox(T, x.L[1])
		case "errIs":
			x := en.eval(e.Args[0])
			y := en.eval(e.Args[1])
			return boolVal(en.ex.errIs(x, y))
		case "fs":
			// fs(name): content id of the file (0 absent, -1 partial/corrupt, >0 complete content)
			n := en.eval(e.Args[0])
			return Val{T: types.Typ[types.UnsafePointer], L: []string{sel(en.ex.heapGet(en.st, "FS|c", sArr(sStr, sInt)), n.L[0])}}
		case "contains":
			sv := en.eval(e.Args[0])
			xv := en.eval(e.Args[1])
			if sl, ok := sv.T.Underlying().(*types.Slice); ok && xv.K != nil {
				xv = en.coerce(xv, sl.Elem())
			}
			return boolVal(en.ex.containsTerm(en.st, sv, xv))
		case "hassuffix":
			a, b := en.eval(e.Args[0]), en.eval(e.Args[1])
			return boolVal(app(en.ex.declFun("uf|hassuffix", []string{sStr, sStr}, sBool), a.L[0], b.L[0]))
		case "cutsuffix":
			a, b := en.eval(e.Args[0]), en.eval(e.Args[1])
			return Val{T: types.Typ[types.String], L: []string{app(en.ex.declFun("uf|cutsuffix", []string{sStr, sStr}, sStr), a.L[0], b.L[0])}}
		case "nonnil":
			// nonnil(x): pointers are not nil; interfaces hold a non-nil pointer
			x := en.eval(e.Args[0])
			if len(x.L) == 2 {
				return boolVal(and(not(eq(x.L[0], "0")), not(eq(x.L[1], "0"))))
			}
			return boolVal(not(eq(x.L[0], "0")))
		case "inv":
			// inv(x): the type invariant of the object x points to (true for nil and for types without one)
			x := en.eval(e.Args[0])
			t, _ := en.ex.typeInvTerm(en.fr, en.st, x)
			if t == "" {
				t = "true"
			}
			return boolVal(t)
		case "aeadkey":
			// aeadkey(c): base of the key slice the AEAD c was created from
			x := en.eval(e.Args[0])
			if len(x.L) != 2 {
				en.fail("aeadkey needs a cipher.AEAD")
			}
			kf := en.ex.declFun("aeadkey", []string{sInt}, sInt)
			return Val{T: types.Typ[types.UnsafePointer], L: []string{app(kf, x.L[1])}}
		case "aeadkeyoff":
			// aeadkeyoff(c): offset (within its backing store) of the key slice the AEAD c was created from
			x := en.eval(e.Args[0])
			if len(x.L) != 2 {
				en.fail("aeadkeyoff needs a cipher.AEAD")
			}
			kfo := en.ex.declFun("aeadkeyoff", []string{sInt}, bv64)
			return Val{T: types.Typ[types.Int], L: []string{app(kfo, x.L[1])}}
		case "fresh":
			// fresh(x): the object was allocated during this call
			x := en.eval(e.Args[0])
			if en.old == nil {
				en.fail("fresh() needs a pre-state")
			}
			return boolVal("(> " + x.L[0] + " " + en.old.allocCtr + ")")
		case "uf":
			// uf("name", RetType, args...): uninterpreted spec function
			nameLit, ok := e.Args[0].(*ELit)
			if !ok {
				en.fail("uf: first argument must be a string literal")
			}
			RT := en.resolveType(exprString(e.Args[1]))
			var sorts, terms []string
			for _, a := range e.Args[2:] {
				v := en.eval(a)
				if v.K != nil {
					v = en.coerce(v, types.Typ[types.Int])
				}
				for i, l := range flatten(v.T) {
					sorts = append(sorts, l.Sort)
					terms = append(terms, v.L[i])
				}
			}
			rl := flatten(RT)
			if len(rl) != 1 {
				en.fail("uf: result type must be scalar")
			}
			f := en.ex.declFun("uf|"+nameLit.Text, sorts, rl[0].Sort)
			if len(terms) == 0 {
				return Val{T: RT, L: []string{f}}
			}
			return Val{T: RT, L: []string{app(f, terms...)}}
		}
		// conversion to a named/basic type
		if T := en.tryType(id.Name); T != nil && len(e.Args) == 1 {
			return en.convertTo(en.eval(e.Args[0]), T)
		}
		// predicate / spec function
		if pd := en.ex.C.Preds[id.Name]; pd != nil {
			return en.applyPred(pd, e.Args)
		}
		// module function in the current package
		if en.pkg != nil {
			if fn := en.ex.P.Funcs[shortPkg(en.pkg.Path())+"."+id.Name]; fn != nil {
				return en.callPure(fn, nil, e.Args)
			}
		}
		en.fail("unknown function %s", id.Name)
	}
	if s, ok := e.Fun.(*ESel); ok {
		// pkg.Func(...) or pkg.Type(x) or recv.Method(...)
		if id, ok := s.X.(*EIdent); ok {
			if _, bound := en.vars[id.Name]; !bound && (en.fr == nil || en.findLocal(id.Name) == nil) {
				if p := en.lookupPackage(id.Name); p != nil && (en.pkg == nil || en.pkg.Scope().Lookup(id.Name) == nil) {
					obj := p.Scope().Lookup(s.Name)
					if tn, ok := obj.(*types.TypeName); ok {
						return en.convertTo(en.eval(e.Args[0]), tn.Type())
					}
					if fn := en.ex.P.Funcs[shortPkg(p.Path())+"."+s.Name]; fn != nil {
						return en.callPure(fn, nil, e.Args)
					}
					en.fail("unknown %s.%s", id.Name, s.Name)
				}
			}
		}
		recv := en.eval(s.X)
		return en.methodCall(recv, s.Name, e.Args)
	}
	en.fail("unsupported call %s", exprString(e))
	return Val{}
}

func (en *Env) tryType(name string) types.Type {
	if obj := types.Universe.Lookup(name); obj != nil {
		if tn, ok := obj.(*types.TypeName); ok {
			return tn.Type()
		}
	}
	if en.pkg != nil {
		if tn, ok := en.pkg.Scope().Lookup(name).(*types.TypeName); ok {
			return tn.Type()
		}
	}
	return nil
}

func (en *Env) convertTo(v Val, T types.Type) Val {
	if v.K != nil {
		return en.coerce(v, T)
	}
	lf, lt := flatten(v.T), flatten(T)
	if len(lf) == 1 && len(lt) == 1 {
		wf, wt := sortWidth(lf[0].Sort), sortWidth(lt[0].Sort)
		if wf > 0 && wt > 0 {
			switch {
			case wf == wt:
				return Val{T: T, L: v.L}
			case wt < wf:
				return Val{T: T, L: []string{fmt.Sprintf("((_ extract %d 0) %s)", wt-1, v.L[0])}}
			case isSigned(v.T):
				return Val{T: T, L: []string{fmt.Sprintf("((_ sign_extend %d) %s)", wt-wf, v.L[0])}}
			default:
				return Val{T: T, L: []string{fmt.Sprintf("((_ zero_extend %d) %s)", wt-wf, v.L[0])}}
			}
		}
		if lf[0].Sort == lt[0].Sort {
			return Val{T: T, L: v.L}
		}
	}
	if len(lf) == len(lt) {
		same := true
		for i := range lf {
			if lf[i].Sort != lt[i].Sort {
				same = false
			}
		}
		if same {
			return Val{T: T, L: v.L}
		}
	}
	en.fail("unsupported conversion %s -> %s", typeKey(v.T), typeKey(T))
	return Val{}
}

func (en *Env) applyPred(pd *PredDef, args []Expr) Val {
	if len(args) != len(pd.Params) {
		en.fail("pred %s expects %d arguments", pd.Name, len(pd.Params))
	}
	saved := en.vars
	savedPkg := en.pkg
	nv := map[string]Val{}
	// predicates are evaluated in their defining package
	var ppkg *types.Package
	for path, p := range en.ex.P.TPkgs {
		if shortPkg(path) == pd.Pkg {
			ppkg = p
		}
	}
	if ppkg != nil {
		en.pkg = ppkg
	}
	for i, p := range pd.Params {
		en.pkg, savedPkg = savedPkg, en.pkg
		a := en.eval(args[i])
		en.pkg, savedPkg = savedPkg, en.pkg
		T := en.resolveType(p.Type)
		if a.K != nil {
			a = en.coerce(a, T)
		}
		if a.T == types.Typ[types.UntypedNil] {
			a = zeroVal(T)
		}
		if _, isIface := a.T.Underlying().(*types.Interface); isIface && len(a.L) == 2 {
			if _, toPtr := T.Underlying().(*types.Pointer); toPtr {
				// interface argument for a pointer parameter: the payload (unique implementation, as in fieldOf)
				if impl := en.ex.uniqueImpl(a.T); impl == nil || !types.Identical(impl, T) {
					en.fail("pred %s: interface argument for parameter %s", pd.Name, p.Name)
				}
				a = Val{T: T, L: []string{a.L[1]}}
			}
		}
		a.T = T
		nv[p.Name] = a
	}
	// quantified variables in scope stay visible
	for k, v := range saved {
		if _, ok := nv[k]; !ok && strings.HasPrefix(firstOr(v.L, ""), "q") {
			nv[k] = v
		}
	}
	en.vars = nv
	out := en.eval(pd.Body)
	en.vars = saved
	en.pkg = savedPkg
	if pd.Ret != "" && out.K != nil {
		out = en.coerce(out, en.resolveType(pd.Ret))
	}
	return out
}

func firstOr(xs []string, d string) string {
	if len(xs) > 0 {
		return xs[0]
	}
	return d
}

// methodCall evaluates recv.Name(args) for pure module methods by inlining the real body.
func (en *Env) methodCall(recv Val, name string, args []Expr) Val {
	T := recv.T
	// special library methods
	if v, ok := en.specialMethod(recv, name, args); ok {
		return v
	}
	if _, ok := T.Underlying().(*types.Interface); ok && len(recv.L) == 2 {
		if impl := en.ex.uniqueImpl(T); impl != nil {
			recv = Val{T: impl, L: []string{recv.L[1]}}
			T = impl
		}
	}
	obj, _, _ := types.LookupFieldOrMethod(T, true, nil, name)
	if obj == nil {
		// unexported method of another package
		if n, ok := derefNamed(T); ok {
			for i := 0; i < n.NumMethods(); i++ {
				if n.Method(i).Name() == name {
					obj = n.Method(i)
				}
			}
		}
	}
	fnObj, ok := obj.(*types.Func)
	if !ok {
		en.fail("no method %s on %s", name, typeKey(T))
	}
	fn := en.ex.P.Prog.FuncValue(fnObj)
	if fn == nil || len(fn.Blocks) == 0 {
		en.fail("method %s has no body", name)
	}
	// adjust receiver: value receiver called on pointer
	sigRecv := fn.Signature.Recv().Type()
	if _, isPtr := sigRecv.Underlying().(*types.Pointer); !isPtr {
		if p, ok := recv.T.Underlying().(*types.Pointer); ok {
			recv = en.ex.loadObj(en.st, p.Elem(), recv.L[0])
		}
	}
	return en.callPure(fn, &recv, args)
}

func derefNamed(T types.Type) (*types.Named, bool) {
	if p, ok := T.Underlying().(*types.Pointer); ok {
		T = p.Elem()
	}
	n, ok := types.Unalias(T).(*types.Named)
	return n, ok
}

// callPure inlines a module function in specification context (no obligations, state is not changed).
func (en *Env) callPure(fn *ssa.Function, recv *Val, args []Expr) Val {
	var avs []Val
	if recv != nil {
		avs = append(avs, *recv)
	}
	for i, a := range args {
		v := en.eval(a)
		pi := i
		if recv != nil {
			pi++
		}
		if pi < len(fn.Params) {
			PT := fn.Params[pi].Type()
			if v.K != nil {
				v = en.coerce(v, PT)
			}
			if v.T == types.Typ[types.UntypedNil] {
				v = zeroVal(PT)
			}
		}
		avs = append(avs, v)
	}
	if len(avs) != len(fn.Params) {
		en.fail("call of %s with %d arguments", funcKey(fn), len(avs))
	}
	if ct := en.ex.C.Funcs[funcKey(fn)]; ct != nil && ct.Function && recv == nil {
		RT := fn.Signature.Results()
		ls := flatten(RT)
		out := Val{T: RT}
		if RT.Len() == 1 {
			out.T = RT.At(0).Type()
		}
		for j, l := range ls {
			out.L = append(out.L, en.ex.fnTerm(funcKey(fn), j, l.Sort, avs))
		}
		return out
	}
	stc := en.st.clone()
	savedSafety := en.ex.opts.Safety
	savedDry := en.ex.specMode
	en.ex.opts.Safety = false
	en.ex.specMode++
	res, ok := en.ex.inlineCall(en.frameOrRoot(), stc, fn, avs, nil, 0, true)
	en.ex.specMode = savedDry
	en.ex.opts.Safety = savedSafety
	if !ok {
		en.fail("cannot inline %s in a contract", funcKey(fn))
	}
	return res
}

func (en *Env) frameOrRoot() *Frame {
	if en.fr != nil {
		return en.fr
	}
	return &Frame{vals: map[ssa.Value]Val{}, regs: map[*ssa.Alloc]bool{}}
}

// specialMethod models a few library methods usable in contracts.
func (en *Env) specialMethod(recv Val, name string, args []Expr) (Val, bool) {
	switch namedName(recv.T) {
	case "net/netip.Addr":
		switch name {
		case "IsValid":
			return boolVal(not(eq(app("(_ extract 129 128)", recv.L[0]), "#b00"))), true
		}
	case "net/netip.Prefix":
		// a Prefix is (ip, bitsPlusOne)
		if len(recv.L) >= 2 {
			switch name {
			case "Addr":
				if obj, _, _ := types.LookupFieldOrMethod(recv.T, false, nil, "Addr"); obj != nil {
					if f, ok := obj.(*types.Func); ok {
						return Val{T: f.Type().(*types.Signature).Results().At(0).Type(), L: []string{recv.L[0]}}, true
					}
				}
			case "Bits":
				return Val{T: types.Typ[types.Int], L: []string{app("bvsub", "((_ zero_extend 56) "+recv.L[1]+")", bvLit(1, 64))}}, true
			}
		}
	case "time.Time":
		switch name {
		case "Before":
			o := en.eval(args[0])
			return boolVal(app("<", recv.L[0], o.L[0])), true
		case "After":
			o := en.eval(args[0])
			return boolVal(app(">", recv.L[0], o.L[0])), true
		case "Equal":
			o := en.eval(args[0])
			return boolVal(eq(recv.L[0], o.L[0])), true
		}
	}
	return Val{}, false
}
