package main

import (
	"fmt"
	"go/token"
	"go/types"
	"sort"
	"strings"

	"golang.org/x/tools/go/ssa"
)

// ---------- call dispatch ----------

func (ex *Exec) setResult(fr *Frame, v ssa.Value, r Val) {
	if v == nil {
		return
	}
	r.T = v.Type()
	fr.vals[v] = r
}

func calleeName(fn *ssa.Function) string {
	if fn == nil {
		return "?"
	}
	if fn.Object() != nil {
		if f, ok := fn.Object().(*types.Func); ok {
			full := f.FullName()
			// strip type arguments from generic instantiations
			if k := strings.Index(full, "["); k >= 0 {
				full = full[:k]
			}
			return full
		}
	}
	return fn.String()
}

func (ex *Exec) call(fr *Frame, st *State, in ssa.Instruction, cc *ssa.CallCommon, res ssa.Value) {
	var args []Val
	for _, a := range cc.Args {
		args = append(args, ex.value(fr, st, a))
	}
	pos := in.Pos()
	if b, ok := cc.Value.(*ssa.Builtin); ok {
		ex.builtin(fr, st, b, cc, args, res, pos)
		return
	}
	if cc.IsInvoke() {
		ex.invoke(fr, st, cc, args, res, pos)
		return
	}
	var fn *ssa.Function
	var bind []Val
	if sc := cc.StaticCallee(); sc != nil {
		fn = sc
		if mc, ok := cc.Value.(*ssa.MakeClosure); ok {
			for _, b := range mc.Bindings {
				bind = append(bind, ex.value(fr, st, b))
			}
		}
	} else {
		fv := ex.value(fr, st, cc.Value)
		if fv.Clos != nil {
			fn = fv.Clos.Fn
			bind = fv.Clos.Bind
		}
	}
	if fn == nil {
		// dynamic call of an unknown function value
		fv := ex.value(fr, st, cc.Value)
		ex.oblige(fr, st, "nil", "", not(eq(fv.L[0], "0")), pos, "call of nil function: "+ex.srcLine(pos))
		ex.havocAll(st, "call through unknown function value at "+ex.P.pos(pos))
		if res != nil {
			ex.setResult(fr, res, ex.freshVal("dyncall", res.Type()))
		}
		return
	}
	r := ex.callFunction(fr, st, fn, args, bind, cc.Args, pos)
	if res != nil {
		ex.setResult(fr, res, r)
		if len(r.TupleClos) > 0 {
			fr.tupleClos[res] = r.TupleClos
		}
	}
}

// callFunction applies a statically known callee.
func (ex *Exec) callFunction(fr *Frame, st *State, fn *ssa.Function, args []Val, bind []Val, argVals []ssa.Value, pos token.Pos) Val {
	key := funcKey(fn)
	name := calleeName(fn)
	// library specs
	if sp, ok := specs[name]; ok {
		ex.trusted[name] = true
		if !explicitEvent[name] {
			ex.libraryEvent(fr, st, fn, args, pos)
		}
		return sp(ex, fr, st, &callCtx{fn: fn, args: args, argVals: argVals, pos: pos})
	}
	isMod := fn.Pkg != nil && isModulePkg(fn.Pkg.Pkg) || (fn.Object() != nil && isModulePkg(fn.Object().Pkg())) || (fn.Parent() != nil)
	if !isMod || len(fn.Blocks) == 0 {
		ex.libraryEvent(fr, st, fn, args, pos)
		return ex.externalCall(fr, st, fn, args, argVals, pos)
	}
	ct := ex.C.Funcs[key]
	nilRecvCheck := func() {
		if recv := fn.Signature.Recv(); recv != nil && len(args) > 0 && (ct == nil || !ct.NilRecv) && ex.specMode == 0 {
			if _, isPtr := recv.Type().Underlying().(*types.Pointer); isPtr {
				ex.oblige(fr, st, "nil", "recv@call:"+key, not(eq(args[0].L[0], "0")), pos, "method "+key+" called on a nil receiver: "+ex.srcLine(pos))
			}
		}
	}
	if ct != nil && !ct.Inline && ex.specMode == 0 {
		nilRecvCheck()
		return ex.applyContract(fr, st, fn, ct, args, pos)
	}
	// call-site clauses of the function under verification also apply to callees without a contract
	if ex.specMode == 0 {
		ex.checkCallSites(fr, st, key, args, pos)
	}
	if ex.canInline(fr, fn, ct) {
		if r, ok := ex.inlineCall(fr, st, fn, args, bind, fr.depth+1, false); ok {
			return r
		}
	}
	nilRecvCheck()
	return ex.opaqueCall(fr, st, fn, args, pos)
}

func (ex *Exec) canInline(fr *Frame, fn *ssa.Function, ct *FuncContract) bool {
	if ex.specMode > 0 {
		return fr.depth < 8
	}
	if ct != nil && ct.Inline {
		return fr.depth < ex.opts.InlineDepth+2
	}
	if fr.depth >= ex.opts.InlineDepth {
		return false
	}
	if fn.Parent() != nil { // closures called directly
		return countInstrs(fn) <= 120
	}
	n := countInstrs(fn)
	if n > ex.opts.MaxInstr {
		return false
	}
	if len(findLoops(fn)) > 0 {
		return false
	}
	// recursion guard
	for f := fr; f != nil; f = f.parent {
		if f.fn == fn {
			return false
		}
	}
	return true
}

func countInstrs(fn *ssa.Function) int {
	n := 0
	for _, b := range fn.Blocks {
		n += len(b.Instrs)
	}
	return n
}

// inlineCall executes the callee body in place.
func (ex *Exec) inlineCall(caller *Frame, st *State, fn *ssa.Function, args []Val, bind []Val, depth int, spec bool) (Val, bool) {
	for f := caller; f != nil; f = f.parent {
		if f.fn == fn {
			return Val{}, false
		}
	}
	if len(args) != len(fn.Params) {
		return Val{}, false
	}
	ex.frameCtr++
	nf := &Frame{id: ex.frameCtr, fn: fn, vals: map[ssa.Value]Val{}, depth: depth, parent: caller,
		regs: map[*ssa.Alloc]bool{}, tupleClos: map[ssa.Value][]*Closure{}, rangeOf: map[ssa.Value]ssa.Value{}}
	if caller != nil {
		nf.path = caller.path + "@inl:" + funcKey(fn)
	}
	ex.inlined[funcKey(fn)] = true
	for _, b := range fn.Blocks {
		for _, in := range b.Instrs {
			if a, ok := in.(*ssa.Alloc); ok && registerLike(a) {
				nf.regs[a] = true
			}
		}
	}
	for i, p := range fn.Params {
		v := args[i]
		v.T = p.Type()
		nf.vals[p] = v
	}
	for i, fv := range fn.FreeVars {
		if i < len(bind) {
			nf.vals[fv] = bind[i]
		} else {
			nf.vals[fv] = ex.freshVal("freevar", fv.Type())
		}
	}
	ex.runBody(nf, st)
	// merge returns
	if len(nf.rets) == 0 {
		st.pc = "false"
		return ex.freshVal("noret", fn.Signature.Results()), true
	}
	var ins []*State
	for _, r := range nf.rets {
		ins = append(ins, r.st)
	}
	m := ex.merge(nf, nil, ins, nil)
	*st = *m
	res := Val{T: fn.Signature.Results()}
	nres := fn.Signature.Results().Len()
	for k := 0; k < nres; k++ {
		ls := flatten(fn.Signature.Results().At(k).Type())
		var clos *Closure
		sameClos := true
		for li := range ls {
			var t string
			for ri := len(nf.rets) - 1; ri >= 0; ri-- {
				r := nf.rets[ri]
				if ri == len(nf.rets)-1 {
					t = r.vals[k].L[li]
				} else {
					t = ite(r.st.pc, r.vals[k].L[li], t)
				}
			}
			res.L = append(res.L, ex.def("ret", ls[li].Sort, t))
		}
		for ri, r := range nf.rets {
			if ri == 0 {
				clos = r.vals[k].Clos
			} else if r.vals[k].Clos != clos {
				sameClos = false
			}
		}
		if !sameClos {
			clos = nil
		}
		res.TupleClos = append(res.TupleClos, clos)
	}
	if nres == 1 {
		res.T = fn.Signature.Results().At(0).Type()
		res.Clos = res.TupleClos[0]
		res.TupleClos = nil
	}
	return res, true
}

// opaqueCall: module function without contract that is not inlined.
func (ex *Exec) opaqueCall(fr *Frame, st *State, fn *ssa.Function, args []Val, pos token.Pos) Val {
	ex.calleeHavoc++
	defer func() { ex.calleeHavoc-- }()
	keys, top := ex.modSet(fn)
	ex.note("call of %s without contract: effects over-approximated by its syntactic write set", funcKey(fn))
	if ex.assignsActive() && (top || len(keys) > 0) {
		ex.obligeHere(st, "assigns", "callee-without-contract:"+funcKey(fn), "false", "a function with a modifies clause calls "+funcKey(fn)+", which has no contract")
	}
	if top {
		ex.havocAll(st, "callee "+funcKey(fn)+" may call unknown functions")
	} else {
		ex.havocKeys(st, keys)
		st.allocCtr = ex.bumpAlloc(st)
	}
	r := ex.freshVal("res."+fn.Name(), fn.Signature.Results())
	ex.assumeResultFacts(fr, st, fn, r)
	if top || len(keys) > 0 {
		ex.reassumeRootInvs(st)
	}
	return r
}

func (ex *Exec) assumeResultFacts(fr *Frame, st *State, fn *ssa.Function, r Val) {
	// references returned are allocated
	ls := flatten(r.T)
	for i, l := range ls {
		if l.Sort == sInt && !strings.HasSuffix(l.Path, ".t") {
			ex.assume("true", "(<= "+r.L[i]+" "+st.allocCtr+")")
		}
	}
}

// externalCall: library function without a spec.
func (ex *Exec) externalCall(fr *Frame, st *State, fn *ssa.Function, args []Val, argVals []ssa.Value, pos token.Pos) Val {
	name := calleeName(fn)
	ex.note("external call without spec: %s (results unconstrained, memory of slice/pointer arguments havoced)", name)
	ex.havocArgs(fr, st, args, argVals)
	r := ex.freshVal("ext."+fn.Name(), fn.Signature.Results())
	ex.assumeResultFacts(fr, st, fn, r)
	st.allocCtr = ex.bumpAlloc(st)
	return r
}

// havocArgs forgets the memory reachable through slice and pointer arguments.
func (ex *Exec) havocArgs(fr *Frame, st *State, args []Val, argVals []ssa.Value) {
	for i, a := range args {
		switch t := a.T.Underlying().(type) {
		case *types.Slice:
			_ = t
			ex.havocSlice(st, a)
		case *types.Pointer:
			if i < len(argVals) {
				tg := ex.resolve(fr, st, argVals[i])
				if tg.kind != 1 {
					ex.storeT(st, tg, ex.freshVal("extptr", tg.T))
					continue
				}
			}
			if isModuleType(t.Elem()) || !isNamedStruct(t.Elem()) {
				ex.storeObj(st, t.Elem(), a.L[0], ex.freshVal("extptr", t.Elem()))
			}
		case *types.Interface:
			// may be a pointer to module data (e.g. cbor.Unmarshal(data, &x)) – handled via MakeInterface provenance: not tracked
		}
	}
}

func isNamedStruct(T types.Type) bool {
	_, ok := T.Underlying().(*types.Struct)
	return ok
}

func isModuleType(T types.Type) bool {
	if n, ok := types.Unalias(T).(*types.Named); ok {
		return isModulePkg(n.Obj().Pkg())
	}
	return false
}

func (ex *Exec) havocMemBase(st *State, E types.Type, base string) {
	if _, ok := isPlainStruct(E); ok {
		// struct elements: havoc all field arrays of E
		ex.havocKeys(st, ex.structKeys(E))
		return
	}
	ls := flatten(E)
	for _, l := range ls {
		k := memKey(E, l, len(ls))
		srt := sArr(sInt, sArr(bv64, l.Sort))
		m := ex.heapGet(st, k, srt)
		st.heap[k] = ex.def(k, srt, store(m, base, ex.fresh("extmem", sArr(bv64, l.Sort))))
	}
}

// havocSlice forgets the elements s[0:len(s)] (a library function wrote them).
func (ex *Exec) havocSlice(st *State, s Val) {
	sl, ok := s.T.Underlying().(*types.Slice)
	if !ok || len(s.L) != 4 {
		return
	}
	E := sl.Elem()
	if _, ok := isPlainStruct(E); ok {
		ex.havocKeys(st, ex.structKeys(E))
		return
	}
	ls := flatten(E)
	for li, l := range ls {
		k := memKey(E, l, len(ls))
		srt := sArr(sInt, sArr(bv64, l.Sort))
		m := ex.heapGet(st, k, srt)
		if li == 0 {
			ex.writeMem(st, []string{k}, s.L[0], s.L[1], app("bvadd", s.L[1], s.L[2]))
		}
		d := sel(m, s.L[0])
		fr := ex.fresh("extmem", sArr(bv64, l.Sort))
		na := ex.bulkArray("hv", l.Sort, func(i string) string {
			return ite(and(app("bvule", s.L[1], i), app("bvult", i, app("bvadd", s.L[1], s.L[2]))), sel(fr, i), sel(d, i))
		})
		st.heap[k] = ex.def(k, srt, store(m, s.L[0], na))
	}
}

// structKeys lists all heap keys holding fields of struct type T (recursively through nested plain structs).
func (ex *Exec) structKeys(T types.Type) []string {
	var out []string
	seen := map[string]bool{}
	var rec func(T types.Type)
	rec = func(T types.Type) {
		S, ok := isPlainStruct(T)
		if !ok || seen[typeKey(T)] {
			return
		}
		seen[typeKey(T)] = true
		for i := 0; i < S.NumFields(); i++ {
			f := S.Field(i)
			if _, ok := isPlainStruct(f.Type()); ok {
				rec(f.Type())
				continue
			}
			for _, l := range flatten(f.Type()) {
				k := fieldKey(T, f.Name(), l.Path)
				ex.heapSort(k, sArr(sInt, l.Sort))
				out = append(out, k)
			}
		}
		if tc := ex.C.Types[typeContractKey(T)]; tc != nil {
			for _, g := range tc.Ghosts {
				out = append(out, fieldKey(T, g.Name, ""))
			}
		}
	}
	rec(T)
	return out
}

// ---------- interface method calls ----------

func (ex *Exec) uniqueImpl(T types.Type) types.Type {
	it, ok := T.Underlying().(*types.Interface)
	if !ok || it.NumMethods() == 0 {
		return nil
	}
	m := it.Method(0)
	impls := ex.P.implementations(it, m)
	var mod []*ssa.Function
	for _, f := range impls {
		if f.Pkg != nil && isModulePkg(f.Pkg.Pkg) || (f.Object() != nil && isModulePkg(f.Object().Pkg())) {
			mod = append(mod, f)
		}
	}
	if len(mod) != 1 || len(impls) != 1 {
		return nil
	}
	return mod[0].Signature.Recv().Type()
}

func (ex *Exec) invoke(fr *Frame, st *State, cc *ssa.CallCommon, args []Val, res ssa.Value, pos token.Pos) {
	recv := ex.value(fr, st, cc.Value)
	it := cc.Value.Type().Underlying().(*types.Interface)
	mname := cc.Method.Name()
	full := namedName(cc.Value.Type()) + "." + mname
	if types.Identical(cc.Value.Type(), types.Universe.Lookup("error").Type()) {
		full = "error." + mname
	}
	ex.oblige(fr, st, "nil", "", not(eq(recv.L[0], "0")), pos, "method call on nil interface: "+ex.srcLine(pos))
	// contract on the interface method itself (preconditions every implementation relies on)
	ictAll := ex.C.Funcs[typeContractKey(cc.Value.Type())+"."+mname]
	if ex.P.Funcs[typeContractKey(cc.Value.Type())+"."+mname] != nil {
		ictAll = nil
	}
	if ictAll == nil {
		// the method may be declared by an embedded interface (storage.Storage embeds storage.RouterStorage)
		if sig, ok := cc.Method.Type().(*types.Signature); ok && sig.Recv() != nil {
			k := typeContractKey(sig.Recv().Type()) + "." + mname
			if ex.P.Funcs[k] == nil {
				ictAll = ex.C.Funcs[k]
			}
		}
	}
	if ict := ictAll; ict != nil && ex.specMode == 0 {
		vars := map[string]Val{"recv": recv}
		for i, a := range args {
			vars[fmt.Sprintf("arg%d", i)] = a
		}
		for _, cl := range ict.Requires {
			en := ex.newEnv(fr, st, ex.preState, vars)
			t, err := en.evalBool(cl.E)
			if err != nil {
				ex.errors = append(ex.errors, fmt.Sprintf("%s: interface method requires: %v", cl.Line, err))
				continue
			}
			o := ex.oblige(fr, st, "pre", cl.Label+"@call:"+typeContractKey(cc.Value.Type())+"."+mname, t, pos, "precondition of interface method "+mname+": "+cl.Src+" at "+ex.srcLine(pos))
			if o != nil {
				o.Props = cl.Props
			}
		}
	}
	// call-site clauses may name the interface method ("peering.Link.Send")
	ex.checkCallSites(fr, st, typeContractKey(cc.Value.Type())+"."+mname, args, pos)
	if sp, ok := specs[full]; ok {
		ex.trusted[full] = true
		r := sp(ex, fr, st, &callCtx{recv: &recv, args: args, argVals: cc.Args, pos: pos, sig: cc.Signature()})
		if res != nil {
			ex.setResult(fr, res, r)
		}
		return
	}
	impls := ex.P.implementations(it, cc.Method)
	var mod []*ssa.Function
	for _, f := range impls {
		if len(f.Blocks) > 0 && ((f.Pkg != nil && isModulePkg(f.Pkg.Pkg)) || (f.Object() != nil && isModulePkg(f.Object().Pkg()))) {
			mod = append(mod, f)
		}
	}
	if len(mod) == 1 && len(impls) == 1 {
		fn := mod[0]
		ex.assumed["closed-world: "+typeKey(cc.Value.Type())+" is implemented only by "+typeKey(fn.Signature.Recv().Type())] = true
		RT := fn.Signature.Recv().Type()
		tag := fmt.Sprint(ex.typeTag("T:" + typeKey(RT)))
		ex.assume(st.pc, eq(recv.L[0], tag))
		rv := ex.unbox(RT, recv.L[1])
		rv.T = RT
		r := ex.callFunction(fr, st, fn, append([]Val{rv}, args...), nil, nil, pos)
		if ictAll != nil && ex.specMode == 0 && len(ictAll.Ensures) > 0 {
			ex.assumeIfaceEnsures(fr, st, ictAll, recv, args, r)
		}
		if res != nil {
			ex.setResult(fr, res, r)
		}
		return
	}
	// unknown or several implementations
	ex.calleeHavoc++
	defer func() { ex.calleeHavoc-- }()
	if ictAll != nil && ictAll.HasMod && len(mod) > 0 {
		// the frame declared on the interface method (checked on every implementation)
		vars := map[string]Val{"recv": recv}
		for i, a := range args {
			vars[fmt.Sprintf("arg%d", i)] = a
		}
		en := ex.newEnv(fr, st, ex.preState, vars)
		var locs []modLoc
		func() {
			defer func() {
				if r := recover(); r != nil {
					ex.errors = append(ex.errors, fmt.Sprintf("interface modifies of %s: %v", full, r))
				}
			}()
			for _, m := range ictAll.Modifies {
				locs = append(locs, ex.modLocs(en, m)...)
			}
		}()
		ex.callAssigns(st, locs)
		ex.havocLocs(st, locs)
	} else if len(mod) == 0 {
		ex.note("interface call %s: external implementation (arguments' memory havoced)", full)
		ex.havocArgs(fr, st, args, cc.Args)
	} else {
		var keys []string
		top := false
		for _, f := range mod {
			k, t := ex.modSet(f)
			keys = append(keys, k...)
			top = top || t
		}
		var names []string
		for _, f := range impls {
			names = append(names, funcKey(f))
		}
		ex.note("interface call %s: %d implementations (%s), effects over-approximated", full, len(mod), strings.Join(names, ", "))
		if top {
			ex.havocAll(st, "interface call "+full)
		} else {
			ex.havocKeys(st, keys)
		}
	}
	st.allocCtr = ex.bumpAlloc(st)
	var r Val
	if res != nil {
		r = ex.freshVal("inv."+mname, res.Type())
		ex.assumeResultFacts(fr, st, nil, r)
	}
	if ictAll != nil && ex.specMode == 0 && len(ictAll.Ensures) > 0 {
		ex.assumeIfaceEnsures(fr, st, ictAll, recv, args, r)
	}
	ex.reassumeRootInvs(st)
	if res != nil {
		ex.setResult(fr, res, r)
	}
}

// ---------- deferred calls ----------

func (ex *Exec) runDeferred(fr *Frame, st *State, d deferred) {
	cc := &d.instr.Call
	pos := d.instr.Pos()
	if cc.IsInvoke() {
		// re-dispatch with saved receiver
		saved := fr.vals[cc.Value]
		fr.vals[cc.Value] = *d.recv
		for i, a := range cc.Args {
			fr.vals[a] = d.args[i]
		}
		ex.invoke(fr, st, cc, d.args, nil, pos)
		fr.vals[cc.Value] = saved
		return
	}
	if b, ok := cc.Value.(*ssa.Builtin); ok {
		ex.builtin(fr, st, b, cc, d.args, nil, pos)
		return
	}
	var fn *ssa.Function
	var bind []Val
	if sc := cc.StaticCallee(); sc != nil {
		fn = sc
		if d.fn.Clos != nil {
			bind = d.fn.Clos.Bind
		}
	} else if d.fn.Clos != nil {
		fn = d.fn.Clos.Fn
		bind = d.fn.Clos.Bind
	}
	if fn == nil {
		ex.havocAll(st, "deferred call through unknown function value")
		return
	}
	// recover() closures are ignored (a panic is an obligation failure, not control flow)
	if callsRecover(fn) {
		ex.note("deferred recover handler ignored")
		return
	}
	ex.callFunction(fr, st, fn, d.args, bind, cc.Args, pos)
}

func callsRecover(fn *ssa.Function) bool {
	for _, b := range fn.Blocks {
		for _, in := range b.Instrs {
			if c, ok := in.(*ssa.Call); ok {
				if bi, ok := c.Call.Value.(*ssa.Builtin); ok && bi.Name() == "recover" {
					return true
				}
			}
		}
	}
	return false
}

func (ex *Exec) selectEffects(fr *Frame, st *State, in *ssa.Select) {
	ex.note("select: any case may fire, received values unconstrained")
	// a send case hands its value to another goroutine: call-site clauses named "chan-send" constrain it
	for _, s := range in.States {
		if s.Dir == types.SendOnly {
			ex.checkCallSites(fr, st, "chan-send", []Val{ex.value(fr, st, s.Chan), ex.value(fr, st, s.Send)}, in.Pos())
		}
	}
}

// ---------- syntactic write sets ----------

type modInfo struct {
	keys map[string]bool
	top  bool
}

func (ex *Exec) modSet(fn *ssa.Function) ([]string, bool) {
	seen := map[*ssa.Function]bool{}
	acc := &modInfo{keys: map[string]bool{}}
	ex.modWalk(fn, seen, acc)
	ks := make([]string, 0, len(acc.keys))
	for k := range acc.keys {
		ks = append(ks, k)
	}
	sort.Strings(ks)
	return ks, acc.top
}

func (ex *Exec) modWalk(fn *ssa.Function, seen map[*ssa.Function]bool, acc *modInfo) {
	if fn == nil || seen[fn] {
		return
	}
	seen[fn] = true
	if ct := ex.C.Funcs[funcKey(fn)]; ct != nil && ct.Pure {
		return
	}
	if len(fn.Blocks) == 0 {
		return
	}
	all := map[*ssa.BasicBlock]bool{}
	for _, b := range fn.Blocks {
		all[b] = true
	}
	ex.modWalkBlocks(fn, all, seen, acc)
}

// modWalkBlocks accumulates the write set of the given blocks of fn.
func (ex *Exec) modWalkBlocks(fn *ssa.Function, blocks map[*ssa.BasicBlock]bool, seen map[*ssa.Function]bool, acc *modInfo) {
	addType := func(T types.Type) {
		for _, k := range ex.writeKeysForType(T) {
			acc.keys[k] = true
		}
	}
	var addPtr func(p ssa.Value)
	addPtr = func(p ssa.Value) {
		switch p := p.(type) {
		case *ssa.Alloc:
			if registerLike(p) {
				return
			}
			addType(p.Type().(*types.Pointer).Elem())
		case *ssa.FieldAddr:
			ST := p.X.Type().Underlying().(*types.Pointer).Elem()
			if a, ok := rootAlloc(p); ok && registerLike(a) {
				return
			}
			S := ST.Underlying().(*types.Struct)
			f := S.Field(p.Field)
			if _, ok := isPlainStruct(f.Type()); ok {
				for _, k := range ex.structKeys(f.Type()) {
					acc.keys[k] = true
				}
				return
			}
			for _, l := range flatten(f.Type()) {
				k := fieldKey(ST, f.Name(), l.Path)
				ex.heapSort(k, sArr(sInt, l.Sort))
				acc.keys[k] = true
			}
		case *ssa.IndexAddr:
			if a, ok := rootAlloc(p); ok && registerLike(a) {
				return
			}
			switch xt := p.X.Type().Underlying().(type) {
			case *types.Slice:
				for _, k := range ex.elemKeys(xt.Elem()) {
					acc.keys[k] = true
				}
			case *types.Pointer:
				if fa, ok := p.X.(*ssa.FieldAddr); ok {
					addPtr(fa)
					return
				}
				A := xt.Elem().Underlying().(*types.Array)
				for _, k := range ex.elemKeys(A.Elem()) {
					acc.keys[k] = true
				}
			}
		case *ssa.Global:
			for _, l := range flatten(p.Type().(*types.Pointer).Elem()) {
				k := globalKey(p, l.Path)
				ex.heapSort(k, l.Sort)
				acc.keys[k] = true
			}
		default:
			addType(p.Type().Underlying().(*types.Pointer).Elem())
		}
	}
	for _, b := range fn.Blocks {
		if !blocks[b] {
			continue
		}
		for _, in := range b.Instrs {
			switch in := in.(type) {
			case *ssa.Store:
				addPtr(in.Addr)
			case *ssa.MapUpdate:
				for _, k := range ex.mapKeys(in.Map.Type()) {
					acc.keys[k] = true
				}
			case ssa.CallInstruction:
				if _, isGo := in.(*ssa.Go); isGo {
					continue
				}
				cc := in.Common()
				if bi, ok := cc.Value.(*ssa.Builtin); ok {
					switch bi.Name() {
					case "copy", "clear", "append":
						if sl, ok := cc.Args[0].Type().Underlying().(*types.Slice); ok {
							for _, k := range ex.elemKeys(sl.Elem()) {
								acc.keys[k] = true
							}
						}
						if mp, ok := cc.Args[0].Type().Underlying().(*types.Map); ok {
							_ = mp
							for _, k := range ex.mapKeys(cc.Args[0].Type()) {
								acc.keys[k] = true
							}
						}
					case "delete":
						for _, k := range ex.mapKeys(cc.Args[0].Type()) {
							acc.keys[k] = true
						}
					}
					continue
				}
				if cc.IsInvoke() {
					it := cc.Value.Type().Underlying().(*types.Interface)
					impls := ex.P.implementations(it, cc.Method)
					n := 0
					for _, f := range impls {
						if len(f.Blocks) > 0 && f.Pkg != nil && isModulePkg(f.Pkg.Pkg) {
							ex.modWalk(f, seen, acc)
							n++
						}
					}
					if n == 0 {
						ex.extArgMods(cc, acc)
					}
					continue
				}
				callee := cc.StaticCallee()
				if callee == nil {
					if mc, ok := cc.Value.(*ssa.MakeClosure); ok {
						callee = mc.Fn.(*ssa.Function)
					}
				}
				if callee == nil {
					// function value: if it was made in this function we follow the closures created here
					found := false
					for _, b2 := range fn.Blocks {
						for _, in2 := range b2.Instrs {
							if mc, ok := in2.(*ssa.MakeClosure); ok {
								ex.modWalk(mc.Fn.(*ssa.Function), seen, acc)
								found = true
							}
						}
					}
					if !found {
						acc.top = true
					}
					continue
				}
				isMod := callee.Pkg != nil && isModulePkg(callee.Pkg.Pkg) || callee.Parent() != nil ||
					(callee.Object() != nil && isModulePkg(callee.Object().Pkg()))
				if isMod && len(callee.Blocks) > 0 {
					ex.modWalk(callee, seen, acc)
				} else {
					ex.extArgMods(cc, acc)
					if readOnlyLibMethod(callee) {
						continue
					}
					// receiver/pointer args of library methods (atomics, mutexes) write the pointed field
					for _, a := range cc.Args {
						if _, ok := a.Type().Underlying().(*types.Pointer); ok {
							switch a.(type) {
							case *ssa.FieldAddr, *ssa.IndexAddr, *ssa.Alloc:
								addPtr(a)
							}
						}
					}
				}
			}
		}
	}
}

func rootAlloc(v ssa.Value) (*ssa.Alloc, bool) {
	for {
		switch x := v.(type) {
		case *ssa.Alloc:
			return x, true
		case *ssa.FieldAddr:
			v = x.X
		case *ssa.IndexAddr:
			v = x.X
		default:
			return nil, false
		}
	}
}

func (ex *Exec) extArgMods(cc *ssa.CallCommon, acc *modInfo) {
	for _, a := range cc.Args {
		if sl, ok := a.Type().Underlying().(*types.Slice); ok {
			for _, k := range ex.elemKeys(sl.Elem()) {
				acc.keys[k] = true
			}
		}
	}
}

func (ex *Exec) elemKeys(E types.Type) []string {
	if _, ok := isPlainStruct(E); ok {
		return ex.structKeys(E)
	}
	var out []string
	ls := flatten(E)
	for _, l := range ls {
		k := memKey(E, l, len(ls))
		ex.heapSort(k, sArr(sInt, sArr(bv64, l.Sort)))
		out = append(out, k)
	}
	return out
}

func (ex *Exec) writeKeysForType(T types.Type) []string {
	if _, ok := isPlainStruct(T); ok {
		return ex.structKeys(T)
	}
	if A, ok := T.Underlying().(*types.Array); ok {
		return ex.elemKeys(A.Elem())
	}
	var out []string
	ls := flatten(T)
	for _, l := range ls {
		k := cellKey(T, l, len(ls))
		ex.heapSort(k, sArr(sInt, l.Sort))
		out = append(out, k)
	}
	return out
}


// readOnlyLibMethod: library methods that only read their receiver.
func readOnlyLibMethod(f *ssa.Function) bool {
	switch f.Name() {
	case "Load", "IsSet", "IsNotSet", "String", "Len", "Equal", "Before", "After", "Compare", "IsValid", "IsZero":
		return f.Signature.Recv() != nil
	}
	return false
}


// explicitEvent: library functions whose spec raises its own call-site event under the same name.
var explicitEvent = map[string]bool{
	"crypto/rand.Read": true, "crypto/ed25519.Sign": true, "crypto/ed25519.Verify": true, "crypto/ed25519.VerifyWithOptions": true,
}

// libraryEvent raises the call-site event of a library call: "pkg.Func" (cbor.Unmarshal, slices.SortFunc - also for
// instances of generic functions) or "pkg.Type.Method" (netip.Addr.AsSlice; arg0 is the receiver).
func (ex *Exec) libraryEvent(fr *Frame, st *State, fn *ssa.Function, args []Val, pos token.Pos) {
	if ex.specMode != 0 {
		return
	}
	obj := fn.Object()
	fname := fn.Name()
	if obj == nil && fn.Origin() != nil {
		obj = fn.Origin().Object()
		fname = fn.Origin().Name()
	}
	if k := strings.Index(fname, "["); k >= 0 {
		fname = fname[:k]
	}
	if obj == nil || obj.Pkg() == nil {
		return
	}
	if recv := fn.Signature.Recv(); recv == nil {
		ex.checkCallSites(fr, st, obj.Pkg().Name()+"."+fname, args, pos)
		return
	} else {
		RT := recv.Type()
		if p, ok := RT.(*types.Pointer); ok {
			RT = p.Elem()
		}
		if n, ok := types.Unalias(RT).(*types.Named); ok {
			ex.checkCallSites(fr, st, obj.Pkg().Name()+"."+n.Obj().Name()+"."+fname, args, pos)
		}
	}
}
