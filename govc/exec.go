package main

import (
	"fmt"
	"go/constant"
	"go/token"
	"go/types"
	"sort"
	"strings"

	"golang.org/x/tools/go/ssa"
)

// Frame is one activation (the root function or an inlined callee).
type Frame struct {
	id     int
	fn     *ssa.Function
	vals   map[ssa.Value]Val
	depth  int
	path   string // "@inl:callee" chain for obligation names
	regs   map[*ssa.Alloc]bool
	heapAl map[*ssa.Alloc]string // heap-like allocs: ref term is in vals
	isRoot bool
	loops  []*loopInfo
	edgeC  map[[2]int]string // edge conditions (pred idx, succ idx)
	ct     *FuncContract
	params map[string]Val // entry values by name
	rets   []retPoint
	parent *Frame
	tupleClos map[ssa.Value][]*Closure
	rangeOf map[ssa.Value]ssa.Value
	loopSt map[*loopInfo]*loopState
}

type retPoint struct {
	st   *State
	vals []Val
}

type loopInfo struct {
	head   *ssa.BasicBlock
	blocks map[*ssa.BasicBlock]bool
	backs  []*ssa.BasicBlock
	ord    int // 1-based ordinal in source order
}

// ---------- CFG helpers ----------

func findLoops(fn *ssa.Function) []*loopInfo {
	var loops []*loopInfo
	byHead := map[*ssa.BasicBlock]*loopInfo{}
	for _, b := range fn.Blocks {
		for _, s := range b.Succs {
			if s.Dominates(b) { // back edge b -> s
				li := byHead[s]
				if li == nil {
					li = &loopInfo{head: s, blocks: map[*ssa.BasicBlock]bool{s: true}}
					byHead[s] = li
					loops = append(loops, li)
				}
				li.backs = append(li.backs, b)
				// natural loop body
				stack := []*ssa.BasicBlock{b}
				for len(stack) > 0 {
					x := stack[len(stack)-1]
					stack = stack[:len(stack)-1]
					if li.blocks[x] {
						continue
					}
					li.blocks[x] = true
					stack = append(stack, x.Preds...)
				}
			}
		}
	}
	sort.Slice(loops, func(i, j int) bool { return loops[i].head.Index < loops[j].head.Index })
	// order by source position of the header's first positioned instruction where available
	for i, l := range loops {
		l.ord = i + 1
	}
	return loops
}

func isBackEdge(from, to *ssa.BasicBlock) bool { return to.Dominates(from) }

// topological order ignoring back edges
func topoOrder(fn *ssa.Function) []*ssa.BasicBlock {
	seen := map[*ssa.BasicBlock]bool{}
	var post []*ssa.BasicBlock
	var dfs func(b *ssa.BasicBlock)
	dfs = func(b *ssa.BasicBlock) {
		seen[b] = true
		for _, s := range b.Succs {
			if !seen[s] && !isBackEdge(b, s) {
				dfs(s)
			}
		}
		post = append(post, b)
	}
	if len(fn.Blocks) > 0 {
		dfs(fn.Blocks[0])
	}
	for i, j := 0, len(post)-1; i < j; i, j = i+1, j-1 {
		post[i], post[j] = post[j], post[i]
	}
	return post
}

// registerLike reports whether an alloc is only read/written directly.
func registerLike(a *ssa.Alloc) bool {
	if a.Heap {
		return false
	}
	var ok func(v ssa.Value, self ssa.Value) bool
	ok = func(v ssa.Value, self ssa.Value) bool {
		refs := v.Referrers()
		if refs == nil {
			return false
		}
		for _, r := range *refs {
			switch r := r.(type) {
			case *ssa.UnOp:
				if r.Op != token.MUL {
					return false
				}
			case *ssa.Store:
				if r.Val == v {
					return false
				}
			case *ssa.FieldAddr:
				if pt, isP := r.X.Type().Underlying().(*types.Pointer); isP && isSpecial(pt.Elem()) {
					return false
				}
				if !ok(r, r) {
					return false
				}
			case *ssa.IndexAddr:
				if r.X != v {
					return false
				}
				if !ok(r, r) {
					return false
				}
			case *ssa.DebugRef:
			default:
				return false
			}
		}
		return true
	}
	return ok(a, a)
}

// ---------- running a function body ----------

// runBody symbolically executes fn from the entry state; returns the merged exit.
func (ex *Exec) runBody(fr *Frame, st *State) {
	fn := fr.fn
	fr.loops = findLoops(fn)
	headOf := map[*ssa.BasicBlock]*loopInfo{}
	for _, l := range fr.loops {
		headOf[l.head] = l
	}
	fr.edgeC = map[[2]int]string{}
	out := map[*ssa.BasicBlock]*State{}     // state at end of block (before terminator split)
	edgeSt := map[[2]int]*State{}            // state flowing along an edge
	order := topoOrder(fn)
	for _, b := range order {
		var cur *State
		if b == fn.Blocks[0] {
			cur = st
		} else {
			var ins []*State
			var preds []int
			for _, p := range b.Preds {
				if isBackEdge(p, b) {
					continue
				}
				if es, ok := edgeSt[[2]int{p.Index, b.Index}]; ok && es != nil {
					ins = append(ins, es)
					preds = append(preds, p.Index)
				}
			}
			if len(ins) == 0 {
				continue // unreachable
			}
			ex.atLoopJoin(fr, b, ins)
			cur = ex.merge(fr, b, ins, preds)
		}
		if li := headOf[b]; li != nil {
			cur = ex.loopHead(fr, li, cur)
		}
		ex.block(fr, b, cur)
		out[b] = cur
		// terminator
		if len(b.Instrs) == 0 {
			continue
		}
		switch t := b.Instrs[len(b.Instrs)-1].(type) {
		case *ssa.If:
			c := ex.value(fr, cur, t.Cond).L[0]
			for k, s := range b.Succs {
				ec := c
				if k == 1 {
					ec = not(c)
				}
				ns := cur.clone()
				ns.pc = ex.def("pc", sBool, and(cur.pc, ec))
				ex.flow(fr, b, s, ns, headOf, edgeSt)
			}
		case *ssa.Jump:
			ex.flow(fr, b, b.Succs[0], cur, headOf, edgeSt)
		}
	}
}

// atLoopJoin: "atexit <loop> label: expr" clauses are proved on every path that leaves the loop, in that path's own
// state, where the paths join behind the loop (before they are merged), and are known afterwards.
func (ex *Exec) atLoopJoin(fr *Frame, b *ssa.BasicBlock, ins []*State) {
	if fr != ex.rootFrame || fr.ct == nil || len(fr.ct.AtExit) == 0 {
		return
	}
	for _, li := range fr.loops {
		if li.blocks[b] {
			continue
		}
		// the join behind a Go for/range loop is the block the loop head leaves to; break statements jump there too
		join := false
		for _, sc := range li.head.Succs {
			if sc == b && !li.blocks[sc] {
				join = true
			}
		}
		if !join {
			continue
		}
		for _, c := range fr.ct.AtExit {
			if c.Loop != li.ord {
				continue
			}
			for _, st := range ins {
				en := ex.loopEnv(fr, st, li)
				t, err := en.evalBool(c.E)
				if err != nil {
					ex.errors = append(ex.errors, fmt.Sprintf("%s: atexit %s: %v", c.Line, c.Label, err))
					continue
				}
				pos := token.NoPos
				for _, in := range li.head.Instrs {
					if in.Pos().IsValid() {
						pos = in.Pos()
						break
					}
				}
				o := ex.oblige(fr, st, "exit", fmt.Sprintf("loop%d.%s", li.ord, c.Label), t, pos, "holds on every path that leaves the loop: "+c.Src)
				if o != nil {
					o.Props = c.Props
					o.HasQuant = en.quant
				}
			}
		}
	}
}

func (ex *Exec) flow(fr *Frame, from, to *ssa.BasicBlock, st *State, headOf map[*ssa.BasicBlock]*loopInfo, edgeSt map[[2]int]*State) {
	if isBackEdge(from, to) {
		if li := headOf[to]; li != nil {
			ex.loopBack(fr, li, st)
		}
		return
	}
	edgeSt[[2]int{from.Index, to.Index}] = st
	fr.edgeC[[2]int{from.Index, to.Index}] = st.pc
}

// merge joins the states flowing into b.
func (ex *Exec) merge(fr *Frame, b *ssa.BasicBlock, ins []*State, preds []int) *State {
	if len(ins) == 1 {
		return ins[0].clone()
	}
	n := ins[0].clone()
	var pcs []string
	for _, s := range ins {
		pcs = append(pcs, s.pc)
	}
	n.pc = ex.def("pc", sBool, or(pcs...))
	pick := func(sort string, terms []string) string {
		same := true
		for _, t := range terms[1:] {
			if t != terms[0] {
				same = false
			}
		}
		if same {
			return terms[0]
		}
		t := terms[len(terms)-1]
		for i := len(terms) - 2; i >= 0; i-- {
			t = ite(ins[i].pc, terms[i], t)
		}
		return ex.def("m", sort, t)
	}
	// vars
	keys := map[*ssa.Alloc]bool{}
	for _, s := range ins {
		for k := range s.vars {
			keys[k] = true
		}
	}
	for k := range keys {
		var vs []Val
		for _, s := range ins {
			v, ok := s.vars[k]
			if !ok || v.L == nil {
				// the local was not declared on this path: its value is irrelevant there
				v = zeroVal(k.Type().(*types.Pointer).Elem())
			}
			vs = append(vs, v)
		}
		ls := flatten(vs[0].T)
		nv := Val{T: vs[0].T, L: make([]string, len(vs[0].L)), Clos: vs[0].Clos}
		for i := range vs[0].L {
			ts := make([]string, len(vs))
			for j := range vs {
				ts[j] = vs[j].L[i]
				if vs[j].Clos != vs[0].Clos {
					nv.Clos = nil
				}
			}
			nv.L[i] = pick(ls[i].Sort, ts)
		}
		n.vars[k] = nv
	}
	// heap
	hk := map[string]bool{}
	for _, s := range ins {
		for k := range s.heap {
			hk[k] = true
		}
	}
	for k := range hk {
		sortK := ex.universe[k]
		if sortK == "" {
			sortK = ex.seeded[k]
		}
		ts := make([]string, len(ins))
		for j, s := range ins {
			if t, ok := s.heap[k]; ok {
				ts[j] = t
			} else {
				ts[j] = ex.heapInit(k, sortK)
			}
		}
		n.heap[k] = pick(sortK, ts)
	}
	// alloc counter
	{
		ts := make([]string, len(ins))
		for j, s := range ins {
			ts[j] = s.allocCtr
		}
		n.allocCtr = pick(sInt, ts)
	}
	// defers: must agree
	for fid := range n.defers {
		for _, s := range ins[1:] {
			if len(s.defers[fid]) != len(n.defers[fid]) {
				ex.note("defer stacks differ at join in %s", funcKey(fr.fn))
				if len(s.defers[fid]) > len(n.defers[fid]) {
					n.defers[fid] = s.defers[fid]
				}
			}
		}
	}
	for _, s := range ins[1:] {
		for fid, d := range s.defers {
			if _, ok := n.defers[fid]; !ok {
				n.defers[fid] = d
			}
		}
	}
	return n
}

// ---------- values ----------

func (ex *Exec) value(fr *Frame, st *State, v ssa.Value) Val {
	switch v := v.(type) {
	case *ssa.Const:
		return ex.constVal(v)
	case *ssa.Global:
		return Val{T: v.Type(), L: []string{ex.globalRef(v)}}
	case *ssa.Function:
		return Val{T: v.Type(), L: []string{fmt.Sprint(1000000 + ex.typeTag("fn:"+funcKey(v)))}, Clos: &Closure{Fn: v}}
	case *ssa.Builtin:
		return Val{T: v.Type(), L: []string{"0"}}
	}
	if r, ok := fr.vals[v]; ok {
		return r
	}
	// not yet defined on this path (e.g. value from an unreachable block)
	r := ex.freshVal("undef", v.Type())
	fr.vals[v] = r
	return r
}

func (ex *Exec) globalRef(g *ssa.Global) string {
	name := "glob:" + shortPkgOf(g.Pkg) + "." + g.Name()
	n := quote(name)
	if !ex.declared[name] {
		ex.declared[name] = true
		id := ex.typeTag(name)
		ex.preamble = append(ex.preamble, fmt.Sprintf("(define-fun %s () Int (- 0 %d))", n, 1000+id))
	}
	return n
}

func shortPkgOf(p *ssa.Package) string {
	if p == nil {
		return "?"
	}
	return shortPkg(p.Pkg.Path())
}

func (ex *Exec) constVal(c *ssa.Const) Val {
	T := c.Type()
	ls := flatten(T)
	if c.Value == nil { // zero value / nil
		return zeroVal(T)
	}
	switch c.Value.Kind() {
	case constant.Bool:
		if constant.BoolVal(c.Value) {
			return Val{T: T, L: []string{"true"}}
		}
		return Val{T: T, L: []string{"false"}}
	case constant.Int:
		if len(ls) == 1 && sortWidth(ls[0].Sort) > 0 {
			w := sortWidth(ls[0].Sort)
			var u uint64
			if i, ok := constant.Int64Val(c.Value); ok {
				u = uint64(i)
			} else if x, ok := constant.Uint64Val(c.Value); ok {
				u = x
			}
			return Val{T: T, L: []string{bvLit(u, w)}}
		}
	case constant.String:
		if len(ls) == 1 && ls[0].Sort == sStr {
			return Val{T: T, L: []string{ex.strLit(constant.StringVal(c.Value))}}
		}
	}
	return ex.freshVal("const", T)
}

// ---------- addresses ----------

// place describes where a pointer-typed SSA value points, structurally.
type place struct {
	kind   int // 0 unknown/general pointer, 1 register local, 2 heap
	alloc  *ssa.Alloc
	lo, hi int      // leaf range inside the register value
	idx    []string // array index terms applied (outermost first) inside register value
	idxAt  []int    // leaf position granularity (unused)
	T      types.Type
}

const (
	pkGeneral = iota
	pkReg
)

// regPlace resolves an address rooted at a register-like local.
func (ex *Exec) regPlace(fr *Frame, st *State, v ssa.Value) (*place, bool) {
	switch v := v.(type) {
	case *ssa.Alloc:
		if fr.regs[v] {
			T := v.Type().(*types.Pointer).Elem()
			return &place{kind: pkReg, alloc: v, lo: 0, hi: len(flatten(T)), T: T}, true
		}
	case *ssa.FieldAddr:
		p, ok := ex.regPlace(fr, st, v.X)
		if !ok {
			return nil, false
		}
		if isSpecial(p.T) {
			return nil, false // library types with a hand-chosen representation have no addressable fields
		}
		S := p.T.Underlying().(*types.Struct)
		lo, hi := fieldRange(S, v.Field)
		return &place{kind: pkReg, alloc: p.alloc, lo: p.lo + lo, hi: p.lo + hi, idx: p.idx, T: S.Field(v.Field).Type()}, true
	case *ssa.IndexAddr:
		p, ok := ex.regPlace(fr, st, v.X)
		if !ok {
			return nil, false
		}
		A, ok := p.T.Underlying().(*types.Array)
		if !ok {
			return nil, false
		}
		i := ex.toInt64(ex.value(fr, st, v.Index))
		np := &place{kind: pkReg, alloc: p.alloc, lo: p.lo, hi: p.hi, T: A.Elem()}
		np.idx = append(append([]string{}, p.idx...), i)
		return np, true
	}
	return nil, false
}

// toInt64 converts an integer value to a 64-bit index term.
func (ex *Exec) toInt64(v Val) string {
	w := sortWidth(flatten(v.T)[0].Sort)
	if w == 64 || w == 0 {
		return v.L[0]
	}
	if isSigned(v.T) {
		return fmt.Sprintf("((_ sign_extend %d) %s)", 64-w, v.L[0])
	}
	return fmt.Sprintf("((_ zero_extend %d) %s)", 64-w, v.L[0])
}

// loadReg reads a place inside a register local.
func (ex *Exec) loadReg(st *State, p *place) Val {
	root := st.vars[p.alloc]
	if root.L == nil {
		root = zeroVal(p.alloc.Type().(*types.Pointer).Elem())
	}
	out := Val{T: p.T, L: make([]string, 0, p.hi-p.lo)}
	for i := p.lo; i < p.hi; i++ {
		t := root.L[i]
		for _, ix := range p.idx {
			t = sel(t, ix)
		}
		out.L = append(out.L, t)
	}
	if p.lo == 0 && p.hi == len(root.L) && len(p.idx) == 0 {
		out.Clos = root.Clos
	}
	return out
}

func (ex *Exec) storeReg(st *State, p *place, v Val) {
	rootT := p.alloc.Type().(*types.Pointer).Elem()
	root, ok := st.vars[p.alloc]
	if !ok || root.L == nil {
		root = zeroVal(rootT)
	}
	nl := append([]string{}, root.L...)
	ls := flatten(rootT)
	for i := p.lo; i < p.hi; i++ {
		nv := v.L[i-p.lo]
		if len(p.idx) > 0 {
			nv = nestedStore(root.L[i], p.idx, nv)
		}
		nl[i] = ex.def("r", ls[i].Sort, nv)
	}
	nr := Val{T: rootT, L: nl}
	if p.lo == 0 && p.hi == len(nl) && len(p.idx) == 0 {
		nr.Clos = v.Clos
	}
	st.vars[p.alloc] = nr
}

func nestedStore(arr string, idx []string, v string) string {
	if len(idx) == 1 {
		return store(arr, idx[0], v)
	}
	return store(arr, idx[0], nestedStore(sel(arr, idx[0]), idx[1:], v))
}

// ---------- heap loads and stores through pointer values ----------

// loadAt reads a value of type T located at the object reference ref.
// For struct T ref is the object; for arrays ref is a memory base; otherwise a cell.
func (ex *Exec) loadObj(st *State, T types.Type, ref string) Val {
	if S, ok := isPlainStruct(T); ok {
		out := Val{T: T}
		for i := 0; i < S.NumFields(); i++ {
			f := S.Field(i)
			fv := ex.loadField(st, T, f, ref)
			out.L = append(out.L, fv.L...)
		}
		return out
	}
	if A, ok := T.Underlying().(*types.Array); ok {
		return ex.loadArrayMem(st, A, ref)
	}
	ls := flatten(T)
	out := Val{T: T, L: make([]string, len(ls))}
	for i, l := range ls {
		k := cellKey(T, l, len(ls))
		out.L[i] = sel(ex.heapGet(st, k, sArr(sInt, l.Sort)), ref)
	}
	return out
}

func (ex *Exec) storeObj(st *State, T types.Type, ref string, v Val) {
	if S, ok := isPlainStruct(T); ok {
		pos := 0
		for i := 0; i < S.NumFields(); i++ {
			f := S.Field(i)
			n := len(flatten(f.Type()))
			ex.storeField(st, T, f, ref, Val{T: f.Type(), L: v.L[pos : pos+n]})
			pos += n
		}
		return
	}
	if A, ok := T.Underlying().(*types.Array); ok {
		ex.storeArrayMem(st, A, ref, v)
		return
	}
	ls := flatten(T)
	for i, l := range ls {
		k := cellKey(T, l, len(ls))
		if i == 0 {
			ex.writeObj(st, k, ref)
		}
		ex.heapSet(st, k, sArr(sInt, l.Sort), store(ex.heapGet(st, k, sArr(sInt, l.Sort)), ref, v.L[i]))
	}
}

// arrays living in memory: element leaves are in M arrays at base=ref, offset 0.
func (ex *Exec) loadArrayMem(st *State, A *types.Array, ref string) Val {
	E := A.Elem()
	if _, ok := isPlainStruct(E); ok {
		ex.note("array of structs in memory not modelled (%s)", typeKey(A))
		return ex.freshVal("arr", A)
	}
	ls := flatten(E)
	out := Val{T: A, L: make([]string, len(ls))}
	for i, l := range ls {
		k := memKey(E, l, len(ls))
		out.L[i] = sel(ex.heapGet(st, k, sArr(sInt, sArr(bv64, l.Sort))), ref)
	}
	return out
}

func (ex *Exec) storeArrayMem(st *State, A *types.Array, ref string, v Val) {
	E := A.Elem()
	if _, ok := isPlainStruct(E); ok {
		ex.note("array of structs in memory not modelled (%s)", typeKey(A))
		return
	}
	ls := flatten(E)
	for i, l := range ls {
		k := memKey(E, l, len(ls))
		srt := sArr(sInt, sArr(bv64, l.Sort))
		if i == 0 {
			ex.writeMem(st, []string{k}, ref, bvLit(0, 64), bvLit(uint64(A.Len()), 64))
		}
		ex.heapSet(st, k, srt, store(ex.heapGet(st, k, srt), ref, v.L[i]))
	}
}

func (ex *Exec) loadField(st *State, S types.Type, f *types.Var, ref string) Val {
	FT := f.Type()
	if _, ok := isPlainStruct(FT); ok {
		return ex.loadObj(st, FT, ex.subRef(S, f.Name(), ref))
	}
	ls := flatten(FT)
	out := Val{T: FT, L: make([]string, len(ls))}
	for i, l := range ls {
		k := fieldKey(S, f.Name(), l.Path)
		out.L[i] = sel(ex.heapGet(st, k, sArr(sInt, l.Sort)), ref)
	}
	return out
}

func (ex *Exec) storeField(st *State, S types.Type, f *types.Var, ref string, v Val) {
	FT := f.Type()
	if _, ok := isPlainStruct(FT); ok {
		ex.storeObj(st, FT, ex.subRef(S, f.Name(), ref), v)
		return
	}
	ls := flatten(FT)
	for i, l := range ls {
		k := fieldKey(S, f.Name(), l.Path)
		srt := sArr(sInt, l.Sort)
		if i == 0 {
			ex.writeObj(st, k, ref)
		}
		ex.heapSet(st, k, srt, store(ex.heapGet(st, k, srt), ref, v.L[i]))
	}
	if n := namedName(FT); n != "sync.Mutex" && n != "sync.RWMutex" {
		ex.storedRefs = append(ex.storedRefs, storedRef{T: S, Ref: ref, PC: st.pc})
	}
}

// slice element access
func (ex *Exec) loadElem(st *State, E types.Type, base, idx string) Val {
	if _, ok := isPlainStruct(E); ok {
		return ex.loadObj(st, E, ex.elemRef(E, base, idx))
	}
	ls := flatten(E)
	out := Val{T: E, L: make([]string, len(ls))}
	for i, l := range ls {
		k := memKey(E, l, len(ls))
		out.L[i] = sel(sel(ex.heapGet(st, k, sArr(sInt, sArr(bv64, l.Sort))), base), idx)
	}
	return out
}

func (ex *Exec) storeElem(st *State, E types.Type, base, idx string, v Val) {
	if _, ok := isPlainStruct(E); ok {
		ex.storeObj(st, E, ex.elemRef(E, base, idx), v)
		return
	}
	ls := flatten(E)
	for i, l := range ls {
		k := memKey(E, l, len(ls))
		srt := sArr(sInt, sArr(bv64, l.Sort))
		m := ex.heapGet(st, k, srt)
		if i == 0 {
			ex.writeMem(st, []string{k}, base, idx, app("bvadd", idx, bvLit(1, 64)))
		}
		ex.heapSet(st, k, srt, store(m, base, store(sel(m, base), idx, v.L[i])))
	}
}

// pointerTarget describes a pointer SSA value for heap access.
type target struct {
	kind  int // 1 object/cell at ref; 2 struct field; 3 slice elem; 4 global; 5 array-in-memory elem; 6 reg
	T     types.Type
	ref   string
	S     types.Type
	f     *types.Var
	base  string
	idx   string
	E     types.Type
	reg   *place
	glob  *ssa.Global
	inner *target // for index into array held in a struct field or cell
}

func (ex *Exec) resolve(fr *Frame, st *State, p ssa.Value) *target {
	if rp, ok := ex.regPlace(fr, st, p); ok {
		return &target{kind: 6, reg: rp, T: rp.T}
	}
	elemT := p.Type().Underlying().(*types.Pointer).Elem()
	switch p := p.(type) {
	case *ssa.Global:
		return &target{kind: 4, glob: p, T: elemT}
	case *ssa.FieldAddr:
		pv := ex.value(fr, st, p.X)
		ST := p.X.Type().Underlying().(*types.Pointer).Elem()
		S := ST.Underlying().(*types.Struct)
		return &target{kind: 2, S: ST, f: S.Field(p.Field), ref: pv.L[0], T: elemT}
	case *ssa.IndexAddr:
		xv := ex.value(fr, st, p.X)
		i := ex.toInt64(ex.value(fr, st, p.Index))
		switch xt := p.X.Type().Underlying().(type) {
		case *types.Slice:
			return &target{kind: 3, base: xv.L[0], idx: ex.def("ix", bv64, app("bvadd", xv.L[1], i)), E: xt.Elem(), T: elemT}
		case *types.Pointer: // pointer to array
			A := xt.Elem().Underlying().(*types.Array)
			// arrays in memory (heap-like alloc): base = the pointer
			if fa, ok := p.X.(*ssa.FieldAddr); ok {
				in := ex.resolve(fr, st, fa)
				return &target{kind: 5, inner: in, idx: i, E: A.Elem(), T: elemT}
			}
			return &target{kind: 3, base: xv.L[0], idx: i, E: A.Elem(), T: elemT}
		}
	}
	pv := ex.value(fr, st, p)
	return &target{kind: 1, ref: pv.L[0], T: elemT}
}

func (ex *Exec) load(fr *Frame, st *State, p ssa.Value) Val {
	t := ex.resolve(fr, st, p)
	return ex.loadT(st, t)
}

func (ex *Exec) loadT(st *State, t *target) Val {
	switch t.kind {
	case 6:
		return ex.loadReg(st, t.reg)
	case 4:
		return ex.loadGlobal(st, t.glob)
	case 2:
		return ex.loadField(st, t.S, t.f, t.ref)
	case 3:
		return ex.loadElem(st, t.E, t.base, t.idx)
	case 5:
		arr := ex.loadT(st, t.inner)
		out := Val{T: t.T, L: make([]string, len(arr.L))}
		for i := range arr.L {
			out.L[i] = sel(arr.L[i], t.idx)
		}
		return out
	}
	return ex.loadObj(st, t.T, t.ref)
}

func (ex *Exec) storeT(st *State, t *target, v Val) {
	switch t.kind {
	case 6:
		ex.storeReg(st, t.reg, v)
	case 4:
		ex.storeGlobal(st, t.glob, v)
	case 2:
		ex.storeField(st, t.S, t.f, t.ref, v)
	case 3:
		ex.storeElem(st, t.E, t.base, t.idx, v)
	case 5:
		arr := ex.loadT(st, t.inner)
		na := Val{T: arr.T, L: make([]string, len(arr.L))}
		for i := range arr.L {
			na.L[i] = store(arr.L[i], t.idx, v.L[i])
		}
		ex.storeT(st, t.inner, na)
	default:
		ex.storeObj(st, t.T, t.ref, v)
	}
}

func globalKey(g *ssa.Global, leaf string) string {
	if theProgram != nil && !theProgram.mutableGlobals()[g] {
		return "GI|" + shortPkgOf(g.Pkg) + "." + g.Name() + leaf // never assigned outside package initialisation
	}
	return "G|" + shortPkgOf(g.Pkg) + "." + g.Name() + leaf
}

var theProgram *Program

func (ex *Exec) loadGlobal(st *State, g *ssa.Global) Val {
	T := g.Type().(*types.Pointer).Elem()
	ls := flatten(T)
	out := Val{T: T, L: make([]string, len(ls))}
	for i, l := range ls {
		out.L[i] = ex.heapGet(st, globalKey(g, l.Path), l.Sort)
	}
	// package-level error values are distinct non-nil sentinels
	if types.Identical(T, types.Universe.Lookup("error").Type()) && len(out.L) == 2 {
		if _, changed := st.heap[globalKey(g, ".t")]; !changed {
			id := ex.typeTag("errsentinel:" + shortPkgOf(g.Pkg) + "." + g.Name())
			ex.axiom(and(eq(out.L[0], fmt.Sprint(ex.typeTag("T:*errors.errorString"))), eq(out.L[1], fmt.Sprintf("(- 0 %d)", 5000+id))))
			if initialisedByErrorsNew(g) {
				// errors.New values wrap nothing: they match only themselves
				f := ex.declFun("errIs", []string{sInt, sInt, sInt, sInt}, sBool)
				ex.axiom("(forall ((qt0 Int) (qt1 Int)) (! (not " + app(f, out.L[0], out.L[1], "qt0", "qt1") + ") :pattern (" + app(f, out.L[0], out.L[1], "qt0", "qt1") + ")))")
			}
		}
	}
	if sl, ok := T.Underlying().(*types.Slice); ok && len(out.L) == 4 {
		_ = sl
		ex.constrainVal(out)
	}
	return out
}

func (ex *Exec) storeGlobal(st *State, g *ssa.Global, v Val) {
	T := g.Type().(*types.Pointer).Elem()
	ls := flatten(T)
	for i, l := range ls {
		ex.writeGlobal(st, globalKey(g, l.Path))
		ex.heapSet(st, globalKey(g, l.Path), l.Sort, v.L[i])
	}
}

// ---------- obligations ----------

func (ex *Exec) oblige(fr *Frame, st *State, kind, label, cond string, pos token.Pos, detail string) *Obligation {
	if cond == "true" {
		return nil
	}
	if ex.cut {
		// beyond the verified prefix (contract clause "cutafter"): nothing is claimed, nothing is assumed
		return nil
	}
	if kind != "post" && kind != "pre" && kind != "inv-entry" && kind != "inv-pres" && kind != "lemma" &&
		kind != "exit" && kind != "assigns" && kind != "typeinv" && kind != "dec" && kind != "own" && kind != "guarded" && kind != "crash" && !ex.opts.Safety {
		ex.assume(st.pc, cond)
		return nil
	}
	if kind == "pre" && !ex.opts.Safety && !strings.Contains(label, "@call:") {
		// panic conditions of library functions count as safety obligations
		ex.assume(st.pc, cond)
		return nil
	}
	base := ex.rootKey + "/" + kind
	if label != "" {
		base += ":" + label
	}
	base += fr.path
	ex.oblCount[base]++
	name := base
	if n := ex.oblCount[base]; n > 1 || label == "" {
		name = fmt.Sprintf("%s#%d", base, ex.oblCount[base])
	}
	o := &Obligation{Name: name, Kind: kind, Func: ex.rootKey, Pos: ex.P.pos(pos), Prefix: len(ex.cmds), PC: st.pc, Cond: cond, Detail: detail}
	if !ex.dry {
		ex.obls = append(ex.obls, o)
	}
	// later obligations may assume this one
	ex.assume(st.pc, cond)
	return o
}

func (ex *Exec) cover(fr *Frame, st *State, label string, pos token.Pos) {
	if ex.dry {
		return
	}
	o := &Obligation{Name: ex.rootKey + "/cover:" + label + fr.path, Kind: "cover", Func: ex.rootKey, Pos: ex.P.pos(pos),
		Prefix: len(ex.cmds), PC: st.pc, Cond: "false", Cover: true}
	ex.obls = append(ex.obls, o)
}

func (ex *Exec) srcLine(pos token.Pos) string {
	if !pos.IsValid() {
		return ""
	}
	p := ex.P.Fset.Position(pos)
	return ex.P.sourceLine(p.Filename, p.Line)
}

// ---------- instruction semantics ----------

func (ex *Exec) block(fr *Frame, b *ssa.BasicBlock, st *State) {
	for _, in := range b.Instrs {
		ex.instr(fr, st, in)
	}
}

func nonNeg(x string) string { return app("bvsle", bvLit(0, 64), x) }

func (ex *Exec) instr(fr *Frame, st *State, in ssa.Instruction) {
	if in.Pos().IsValid() {
		ex.curPos = in.Pos()
	}
	ex.curFr = fr
	ex.curSt = st
	switch in := in.(type) {
	case *ssa.Alloc:
		T := in.Type().(*types.Pointer).Elem()
		if fr.regs[in] {
			st.vars[in] = zeroVal(T)
			fr.vals[in] = Val{T: in.Type(), L: []string{"0"}}
			return
		}
		ref := ex.newRef(st, "new."+in.Comment)
		fr.vals[in] = Val{T: in.Type(), L: []string{ref}}
		ex.storeObj(st, T, ref, zeroVal(T))
		if writeOnceCaptured(in) {
			// a variable that closures only read: no callee can change it
			ex.stableCells = append(ex.stableCells, stableCell{ref: ref, pc: st.pc})
		}
	case *ssa.Store:
		v := ex.value(fr, st, in.Val)
		t := ex.resolve(fr, st, in.Addr)
		ex.nilCheck(fr, st, t, in.Pos(), in.Addr)
		ex.storeT(st, t, v)
	case *ssa.UnOp:
		ex.unop(fr, st, in)
	case *ssa.BinOp:
		ex.binop(fr, st, in)
	case *ssa.FieldAddr:
		if _, ok := ex.regPlace(fr, st, in); ok {
			fr.vals[in] = Val{T: in.Type(), L: []string{"0"}}
			return
		}
		pv := ex.value(fr, st, in.X)
		ST := in.X.Type().Underlying().(*types.Pointer).Elem()
		S := ST.Underlying().(*types.Struct)
		ex.oblige(fr, st, "nil", "", not(eq(pv.L[0], "0")), in.Pos(), "field "+S.Field(in.Field).Name()+" of nil pointer: "+ex.srcLine(in.Pos()))
		f := S.Field(in.Field)
		fr.vals[in] = Val{T: in.Type(), L: []string{ex.subRef(ST, f.Name(), pv.L[0])}}
	case *ssa.Field:
		xv := ex.value(fr, st, in.X)
		S := in.X.Type().Underlying().(*types.Struct)
		lo, hi := fieldRange(S, in.Field)
		fr.vals[in] = Val{T: in.Type(), L: xv.L[lo:hi]}
	case *ssa.IndexAddr:
		ex.indexAddr(fr, st, in)
	case *ssa.Index:
		xv := ex.value(fr, st, in.X)
		i := ex.toInt64(ex.value(fr, st, in.Index))
		switch xt := in.X.Type().Underlying().(type) {
		case *types.Array:
			ex.oblige(fr, st, "bounds", "", and(nonNeg(i), app("bvslt", i, bvLit(uint64(xt.Len()), 64))), in.Pos(), ex.srcLine(in.Pos()))
			out := Val{T: in.Type(), L: make([]string, len(xv.L))}
			for k := range xv.L {
				out.L[k] = sel(xv.L[k], i)
			}
			fr.vals[in] = out
		default:
			// string index
			ex.oblige(fr, st, "bounds", "", and(nonNeg(i), app("bvslt", i, app("strlen", xv.L[0]))), in.Pos(), ex.srcLine(in.Pos()))
			fr.vals[in] = Val{T: in.Type(), L: []string{app("str_at", xv.L[0], i)}}
		}
	case *ssa.Slice:
		ex.sliceOp(fr, st, in)
	case *ssa.MakeSlice:
		ln := ex.toInt64(ex.value(fr, st, in.Len))
		cp := ex.toInt64(ex.value(fr, st, in.Cap))
		ex.oblige(fr, st, "slice", "", and(nonNeg(ln), app("bvsle", ln, cp), app("bvult", cp, "#x0000800000000000")), in.Pos(), "make: "+ex.srcLine(in.Pos()))
		base := ex.newRef(st, "mk")
		E := in.Type().Underlying().(*types.Slice).Elem()
		ex.zeroMem(st, E, base)
		fr.vals[in] = Val{T: in.Type(), L: []string{base, bvLit(0, 64), ln, cp}}
	case *ssa.MakeMap:
		ref := ex.newRef(st, "map")
		ex.initMap(st, in.Type(), ref)
		fr.vals[in] = Val{T: in.Type(), L: []string{ref}}
	case *ssa.MakeChan:
		ref := ex.newRef(st, "chan")
		ex.assume(st.pc, eq(app(ex.declFun("chancap", []string{sInt}, bv64), ref), ex.toInt64(ex.value(fr, st, in.Size))))
		fr.vals[in] = Val{T: in.Type(), L: []string{ref}}
	case *ssa.MakeClosure:
		var bind []Val
		for _, b := range in.Bindings {
			bind = append(bind, ex.value(fr, st, b))
		}
		fr.vals[in] = Val{T: in.Type(), L: []string{ex.newRef(st, "clos")}, Clos: &Closure{Fn: in.Fn.(*ssa.Function), Bind: bind}}
	case *ssa.MakeInterface:
		ex.makeInterface(fr, st, in)
	case *ssa.ChangeInterface:
		fr.vals[in] = Val{T: in.Type(), L: ex.value(fr, st, in.X).L}
	case *ssa.ChangeType:
		xv := ex.value(fr, st, in.X)
		fr.vals[in] = Val{T: in.Type(), L: xv.L, Clos: xv.Clos}
	case *ssa.Convert:
		ex.convert(fr, st, in)
	case *ssa.MultiConvert:
		fr.vals[in] = ex.freshVal("mconv", in.Type())
	case *ssa.SliceToArrayPointer:
		xv := ex.value(fr, st, in.X)
		A := in.Type().Underlying().(*types.Pointer).Elem().Underlying().(*types.Array)
		ex.oblige(fr, st, "conv", "", app("bvsge", xv.L[2], bvLit(uint64(A.Len()), 64)), in.Pos(), "slice to array: "+ex.srcLine(in.Pos()))
		// pointer to array at base with offset: only offset-aware through a fresh view
		fr.vals[in] = Val{T: in.Type(), L: []string{ex.arrayView(st, A, xv)}}
	case *ssa.TypeAssert:
		ex.typeAssert(fr, st, in)
	case *ssa.Extract:
		tv := ex.value(fr, st, in.Tuple)
		lo, hi := tupleRange(in.Tuple.Type().(*types.Tuple), in.Index)
		out := Val{T: in.Type(), L: tv.L[lo:hi]}
		if tv.Clos != nil && hi-lo == len(tv.L) {
			out.Clos = tv.Clos
		}
		if cl, ok := fr.tupleClos[in.Tuple]; ok && in.Index < len(cl) {
			out.Clos = cl[in.Index]
		}
		fr.vals[in] = out
	case *ssa.Lookup:
		ex.lookup(fr, st, in)
	case *ssa.MapUpdate:
		ex.mapUpdate(fr, st, in)
	case *ssa.Range:
		fr.vals[in] = Val{T: in.Type(), L: ex.value(fr, st, in.X).L}
		fr.rangeOf[in] = in.X
	case *ssa.Next:
		ex.next(fr, st, in)
	case *ssa.Phi:
		ex.phi(fr, st, in)
	case *ssa.Call:
		ex.proofCut(fr, st, in)
		ex.call(fr, st, in, &in.Call, in)
	case *ssa.Defer:
		d := deferred{instr: in}
		if !in.Call.IsInvoke() {
			d.fn = ex.value(fr, st, in.Call.Value)
		} else {
			rv := ex.value(fr, st, in.Call.Value)
			d.recv = &rv
		}
		for _, a := range in.Call.Args {
			d.args = append(d.args, ex.value(fr, st, a))
		}
		st.defers[fr.id] = append(st.defers[fr.id], d)
	case *ssa.RunDefers:
		ds := st.defers[fr.id]
		st.defers[fr.id] = nil
		for i := len(ds) - 1; i >= 0; i-- {
			ex.runDeferred(fr, st, ds[i])
		}
	case *ssa.Go:
		// concurrency is not modelled: the spawned function is verified separately if in scope
		ex.note("go statement ignored (goroutines not modelled)")
	case *ssa.Send:
		ex.note("channel send: value leaves the sender's ownership (not modelled)")
		ex.checkCallSites(fr, st, "chan-send", []Val{ex.value(fr, st, in.Chan), ex.value(fr, st, in.X)}, in.Pos())
	case *ssa.Select:
		sv := ex.freshVal("select", in.Type())
		fr.vals[in] = sv
		if in.Blocking && len(sv.L) > 0 {
			// a blocking select returns the index of one of its cases
			ex.assume(st.pc, and(app("bvsle", bvLit(0, 64), sv.L[0]), app("bvslt", sv.L[0], bvLit(uint64(len(in.States)), 64))))
		}
		ex.selectEffects(fr, st, in)
	case *ssa.Return:
		var rs []Val
		for _, r := range in.Results {
			rs = append(rs, ex.value(fr, st, r))
		}
		fr.rets = append(fr.rets, retPoint{st: st.clone(), vals: rs})
	case *ssa.Panic:
		if fr.ct == nil || !fr.ct.MayPanic {
			ex.oblige(fr, st, "panic", "", "false", in.Pos(), "explicit panic reachable: "+ex.srcLine(in.Pos()))
		}
	case *ssa.If, *ssa.Jump, *ssa.DebugRef:
	default:
		ex.note("unmodelled instruction %T", in)
		if v, ok := in.(ssa.Value); ok {
			fr.vals[v] = ex.freshVal("unk", v.Type())
		}
	}
}

func (ex *Exec) nilCheck(fr *Frame, st *State, t *target, pos token.Pos, addr ssa.Value) {
	if t.kind == 1 {
		ex.oblige(fr, st, "nil", "", not(eq(t.ref, "0")), pos, "nil pointer dereference: "+ex.srcLine(pos))
	}
	ex.guardedCheck(fr, st, t, pos)
}

// guardedCheck: a field declared "guarded F by L" may only be read or written while L is held
// (by this function, or by its caller as stated in a "requires x.L.held").
func (ex *Exec) guardedCheck(fr *Frame, st *State, t *target, pos token.Pos) {
	if t.kind != 2 || ex.specMode > 0 {
		return
	}
	tc := ex.C.Types[typeContractKey(t.S)]
	if tc == nil {
		return
	}
	for _, g := range tc.Guards {
		for _, fname := range g.Fields {
			if fname != t.f.Name() {
				continue
			}
			S := t.S.Underlying().(*types.Struct)
			for i := 0; i < S.NumFields(); i++ {
				if S.Field(i).Name() == g.Lock {
					held := ex.loadField(st, t.S, S.Field(i), t.ref)
					if len(held.L) == 1 {
						ex.oblige(fr, st, "guarded", tc.Key+"."+fname, held.L[0], pos, "field "+fname+" is guarded by "+g.Lock+", which is not held here: "+ex.srcLine(pos))
					}
				}
			}
		}
	}
}

func (ex *Exec) zeroMem(st *State, E types.Type, base string) {
	if S, ok := isPlainStruct(E); ok {
		_ = S
		// struct elements: zero on demand is not expressible per element without quantifiers; use an axiom-free approach:
		ex.zeroStructElems(st, E, base)
		return
	}
	ls := flatten(E)
	for _, l := range ls {
		k := memKey(E, l, len(ls))
		srt := sArr(sInt, sArr(bv64, l.Sort))
		ex.heapSet(st, k, srt, store(ex.heapGet(st, k, srt), base, zeroOf(sArr(bv64, l.Sort))))
	}
}

// zeroStructElems: a fresh base has never been written, so its element fields hold
// whatever the field arrays contain at elem(base,i); we constrain them lazily: a
// "fresh base" flag lets loadObj return zero. For simplicity we record nothing and
// let elements of a freshly made struct slice be unconstrained (sound: weaker).
func (ex *Exec) zeroStructElems(st *State, E types.Type, base string) {
	ex.note("make([]struct): elements left unconstrained")
}

func (ex *Exec) unop(fr *Frame, st *State, in *ssa.UnOp) {
	switch in.Op {
	case token.MUL:
		t := ex.resolve(fr, st, in.X)
		ex.nilCheck(fr, st, t, in.Pos(), in.X)
		v := ex.loadT(st, t)
		v.T = in.Type()
		// name the loaded leaves
		ls := flatten(in.Type())
		if len(ls) == len(v.L) {
			nl := make([]string, len(v.L))
			for i := range v.L {
				nl[i] = ex.def(in.Name(), ls[i].Sort, v.L[i])
			}
			v.L = nl
		}
		fr.vals[in] = v
		ex.fromReg = t.kind == 6
		ex.afterLoad(fr, st, v)
		ex.fromReg = false
	case token.NOT:
		fr.vals[in] = Val{T: in.Type(), L: []string{not(ex.value(fr, st, in.X).L[0])}}
	case token.SUB:
		x := ex.value(fr, st, in.X)
		if sortWidth(flatten(in.Type())[0].Sort) > 0 {
			fr.vals[in] = Val{T: in.Type(), L: []string{app("bvneg", x.L[0])}}
		} else {
			fr.vals[in] = ex.freshVal("neg", in.Type())
		}
	case token.XOR:
		x := ex.value(fr, st, in.X)
		fr.vals[in] = Val{T: in.Type(), L: []string{app("bvnot", x.L[0])}}
	case token.ARROW:
		ex.note("channel receive: value unconstrained")
		v := ex.freshVal("recv", in.Type())
		fr.vals[in] = v
		ex.afterLoad(fr, st, v)
	default:
		fr.vals[in] = ex.freshVal("unop", in.Type())
	}
}

// afterLoad adds facts that hold for every value read from the heap.
func (ex *Exec) afterLoad(fr *Frame, st *State, v Val) {
	ls := flatten(v.T)
	for i, l := range ls {
		if l.Sort == sInt && (l.Path == "" || strings.HasSuffix(l.Path, ".b") || strings.HasSuffix(l.Path, ".r")) {
			// every reference in the heap was allocated before now
			ex.assume(st.pc, "(<= "+v.L[i]+" "+st.allocCtr+")")
		}
	}
	if _, ok := v.T.Underlying().(*types.Slice); ok && len(v.L) == 4 {
		ex.assume(st.pc, and(nonNeg(v.L[2]), app("bvsle", v.L[2], v.L[3]), nonNeg(v.L[1]),
			app("bvult", v.L[1], "#x0000100000000000"), app("bvult", v.L[3], "#x0000100000000000"),
			implies(eq(v.L[0], "0"), eq(v.L[3], bvLit(0, 64)))))
	}
	if len(ls) == 1 && ls[0].Sort == sStr {
		// like slices, strings are shorter than 2^44 bytes
		ex.assume(st.pc, and(nonNeg(app("strlen", v.L[0])), app("bvult", app("strlen", v.L[0]), "#x0000100000000000")))
	}
	// objects reachable through the heap satisfy their type invariant at visible states
	// (objects this function is in the middle of changing are re-checked at its exits)
	if ex.invDepth == 0 && ex.specMode == 0 && !ex.fromReg && (len(v.L) == 1 || len(v.L) == 2) {
		if rc := ex.rootFrame; rc == nil || rc.ct == nil || !rc.ct.NoInv {
			// never for an object this function has written to (its invariant may be broken right now)
			ref := v.L[len(v.L)-1]
			written := false
			for _, sr := range ex.storedRefs {
				if sr.Ref == ref {
					written = true
					break
				}
			}
			if !written {
				ex.assumeTypeInv(fr, st, v)
			}
		}
	}
}

func (ex *Exec) binop(fr *Frame, st *State, in *ssa.BinOp) {
	x := ex.value(fr, st, in.X)
	y := ex.value(fr, st, in.Y)
	T := in.X.Type()
	out := func(t string) {
		srt := flatten(in.Type())[0].Sort
		fr.vals[in] = Val{T: in.Type(), L: []string{ex.def(in.Name(), srt, t)}}
	}
	switch in.Op {
	case token.EQL, token.NEQ:
		e := ex.valEq(x, y, in.X, in.Y)
		if in.Op == token.NEQ {
			e = not(e)
		}
		out(e)
		return
	}
	lx := flatten(T)
	if len(lx) == 1 && lx[0].Sort == sStr {
		switch in.Op {
		case token.ADD:
			t := app("str_cat", x.L[0], y.L[0])
			ex.axiom(eq(app("strlen", t), app("bvadd", app("strlen", x.L[0]), app("strlen", y.L[0]))))
			out(t)
		default:
			fr.vals[in] = ex.freshVal("strop", in.Type())
		}
		return
	}
	w := 0
	if len(lx) == 1 {
		w = sortWidth(lx[0].Sort)
	}
	if w == 0 {
		if len(lx) == 1 && lx[0].Sort == sBool {
			switch in.Op {
			case token.AND, token.LAND:
				out(and(x.L[0], y.L[0]))
				return
			case token.OR, token.LOR:
				out(or(x.L[0], y.L[0]))
				return
			}
		}
		fr.vals[in] = ex.freshVal("binop", in.Type())
		return
	}
	signed := isSigned(T)
	a, b := x.L[0], y.L[0]
	if ex.rootFrame != nil && ex.rootFrame.ct != nil && ex.rootFrame.ct.NoOverflow && (in.Op == token.ADD || in.Op == token.SUB || in.Op == token.MUL) {
		ex.overflowCheck(fr, st, in, a, b, w, signed)
	}
	switch in.Op {
	case token.ADD:
		out(app("bvadd", a, b))
	case token.SUB:
		out(app("bvsub", a, b))
	case token.MUL:
		out(app("bvmul", a, b))
	case token.QUO, token.REM:
		ex.oblige(fr, st, "div", "", not(eq(b, bvLit(0, w))), in.Pos(), "division by zero: "+ex.srcLine(in.Pos()))
		op := map[bool]map[token.Token]string{true: {token.QUO: "bvsdiv", token.REM: "bvsrem"}, false: {token.QUO: "bvudiv", token.REM: "bvurem"}}[signed][in.Op]
		out(app(op, a, b))
	case token.AND:
		out(app("bvand", a, b))
	case token.OR:
		out(app("bvor", a, b))
	case token.XOR:
		out(app("bvxor", a, b))
	case token.AND_NOT:
		out(app("bvand", a, app("bvnot", b)))
	case token.SHL, token.SHR:
		// shift count may have a different width
		wy := sortWidth(flatten(in.Y.Type())[0].Sort)
		cnt := b
		if isSigned(in.Y.Type()) {
			ex.oblige(fr, st, "shift", "", app("bvsge", b, bvLit(0, wy)), in.Pos(), "negative shift count: "+ex.srcLine(in.Pos()))
		}
		var big string
		if wy > w {
			big = app("bvuge", cnt, bvLit(uint64(w), wy))
			cnt = fmt.Sprintf("((_ extract %d 0) %s)", w-1, cnt)
		} else if wy < w {
			cnt = fmt.Sprintf("((_ zero_extend %d) %s)", w-wy, cnt)
			big = "false"
		} else {
			big = "false"
		}
		var t string
		if in.Op == token.SHL {
			t = ite(big, bvLit(0, w), app("bvshl", a, cnt))
		} else if signed {
			t = ite(big, app("bvashr", a, bvLit(uint64(w-1), w)), app("bvashr", a, cnt))
		} else {
			t = ite(big, bvLit(0, w), app("bvlshr", a, cnt))
		}
		out(t)
	case token.LSS, token.LEQ, token.GTR, token.GEQ:
		op := map[bool]map[token.Token]string{
			true:  {token.LSS: "bvslt", token.LEQ: "bvsle", token.GTR: "bvsgt", token.GEQ: "bvsge"},
			false: {token.LSS: "bvult", token.LEQ: "bvule", token.GTR: "bvugt", token.GEQ: "bvuge"}}[signed][in.Op]
		out(app(op, a, b))
	default:
		fr.vals[in] = ex.freshVal("binop", in.Type())
	}
}

// valEq is Go's == on two values of the same type.
func (ex *Exec) valEq(x, y Val, xs, ys ssa.Value) string {
	T := x.T
	if xs != nil {
		T = xs.Type()
	}
	// comparison with nil constants
	isNil := func(v ssa.Value) bool {
		c, ok := v.(*ssa.Const)
		return ok && c.Value == nil
	}
	switch T.Underlying().(type) {
	case *types.Slice:
		if ys != nil && isNil(ys) {
			return eq(x.L[0], "0")
		}
		if xs != nil && isNil(xs) {
			return eq(y.L[0], "0")
		}
	case *types.Interface:
		if ys != nil && isNil(ys) {
			return eq(x.L[0], "0")
		}
		if xs != nil && isNil(xs) {
			return eq(y.L[0], "0")
		}
	}
	if len(flatten(T)) == 1 && flatten(T)[0].Sort == sStr {
		if c, ok := ys.(*ssa.Const); ok && c.Value != nil && constant.StringVal(c.Value) == "" {
			return eq(app("strlen", x.L[0]), bvLit(0, 64))
		}
		if c, ok := xs.(*ssa.Const); ok && c.Value != nil && constant.StringVal(c.Value) == "" {
			return eq(app("strlen", y.L[0]), bvLit(0, 64))
		}
	}
	n := len(x.L)
	if len(y.L) < n {
		n = len(y.L)
	}
	var es []string
	for i := 0; i < n; i++ {
		es = append(es, eq(x.L[i], y.L[i]))
	}
	return and(es...)
}

func (ex *Exec) indexAddr(fr *Frame, st *State, in *ssa.IndexAddr) {
	i := ex.toInt64(ex.value(fr, st, in.Index))
	switch xt := in.X.Type().Underlying().(type) {
	case *types.Slice:
		xv := ex.value(fr, st, in.X)
		ex.oblige(fr, st, "bounds", "", and(nonNeg(i), app("bvslt", i, xv.L[2])), in.Pos(), ex.srcLine(in.Pos()))
		if _, ok := isPlainStruct(xt.Elem()); ok {
			fr.vals[in] = Val{T: in.Type(), L: []string{ex.elemRef(xt.Elem(), xv.L[0], ex.def("ix", bv64, app("bvadd", xv.L[1], i)))}}
		} else {
			fr.vals[in] = Val{T: in.Type(), L: []string{"0"}}
		}
	case *types.Pointer:
		A := xt.Elem().Underlying().(*types.Array)
		ex.oblige(fr, st, "bounds", "", and(nonNeg(i), app("bvslt", i, bvLit(uint64(A.Len()), 64))), in.Pos(), ex.srcLine(in.Pos()))
		fr.vals[in] = Val{T: in.Type(), L: []string{"0"}}
	default:
		fr.vals[in] = Val{T: in.Type(), L: []string{"0"}}
	}
}

func (ex *Exec) sliceOp(fr *Frame, st *State, in *ssa.Slice) {
	opt := func(v ssa.Value, def string) string {
		if v == nil {
			return def
		}
		return ex.toInt64(ex.value(fr, st, v))
	}
	switch xt := in.X.Type().Underlying().(type) {
	case *types.Slice:
		xv := ex.value(fr, st, in.X)
		lo := opt(in.Low, bvLit(0, 64))
		hi := opt(in.High, xv.L[2])
		mx := opt(in.Max, xv.L[3])
		ex.oblige(fr, st, "slice", "", and(nonNeg(lo), app("bvsle", lo, hi), app("bvsle", hi, mx), app("bvsle", mx, xv.L[3])), in.Pos(), ex.srcLine(in.Pos()))
		fr.vals[in] = Val{T: in.Type(), L: []string{xv.L[0],
			ex.def("so", bv64, app("bvadd", xv.L[1], lo)),
			ex.def("sl", bv64, app("bvsub", hi, lo)),
			ex.def("sc", bv64, app("bvsub", mx, lo))}}
	case *types.Basic: // string
		xv := ex.value(fr, st, in.X)
		ln := app("strlen", xv.L[0])
		lo := opt(in.Low, bvLit(0, 64))
		hi := opt(in.High, ln)
		ex.oblige(fr, st, "slice", "", and(nonNeg(lo), app("bvsle", lo, hi), app("bvsle", hi, ln)), in.Pos(), ex.srcLine(in.Pos()))
		t := app("str_sub", xv.L[0], lo, hi)
		ex.axiom(implies(and(nonNeg(lo), app("bvsle", lo, hi), app("bvsle", hi, ln)), eq(app("strlen", t), app("bvsub", hi, lo))))
		fr.vals[in] = Val{T: in.Type(), L: []string{ex.def("ss", sStr, t)}}
	case *types.Pointer: // pointer to array
		A := xt.Elem().Underlying().(*types.Array)
		n := bvLit(uint64(A.Len()), 64)
		lo := opt(in.Low, bvLit(0, 64))
		hi := opt(in.High, n)
		mx := opt(in.Max, n)
		ex.oblige(fr, st, "slice", "", and(nonNeg(lo), app("bvsle", lo, hi), app("bvsle", hi, mx), app("bvsle", mx, n)), in.Pos(), ex.srcLine(in.Pos()))
		var base string
		if _, ok := ex.regPlace(fr, st, in.X); ok {
			ex.note("slicing a register array (copied to memory)")
			base = ex.newRef(st, "arrcopy")
			arr := ex.load(fr, st, in.X)
			ex.storeArrayMem(st, A, base, arr)
		} else if fa, ok := in.X.(*ssa.FieldAddr); ok {
			// array stored inside a struct field: view through a fresh base (writes through the slice are not reflected)
			ex.note("slicing an array struct field (view copy)")
			base = ex.newRef(st, "arrview")
			arr := ex.loadT(st, ex.resolve(fr, st, fa))
			ex.storeArrayMem(st, A, base, arr)
		} else {
			base = ex.value(fr, st, in.X).L[0]
		}
		fr.vals[in] = Val{T: in.Type(), L: []string{base, lo, ex.def("sl", bv64, app("bvsub", hi, lo)), ex.def("sc", bv64, app("bvsub", mx, lo))}}
	default:
		fr.vals[in] = ex.freshVal("slice", in.Type())
	}
}

// arrayView returns a memory base whose content equals the array starting at the slice's offset.
func (ex *Exec) arrayView(st *State, A *types.Array, sl Val) string {
	base := ex.newRef(st, "aview")
	E := A.Elem()
	ls := flatten(E)
	for _, l := range ls {
		k := memKey(E, l, len(ls))
		srt := sArr(sInt, sArr(bv64, l.Sort))
		m := ex.heapGet(st, k, srt)
		src := sel(m, sl.L[0])
		view := ex.shiftedArray(src, sl.L[1], l.Sort, int(A.Len()))
		ex.heapSet(st, k, srt, store(m, base, view))
	}
	return base
}

// shiftedArray builds an array a' with a'[i] = a[off+i] for 0<=i<n (small n: explicit stores; else lambda).
func (ex *Exec) shiftedArray(a, off, elSort string, n int) string {
	if n <= 64 {
		t := zeroOf(sArr(bv64, elSort))
		for i := 0; i < n; i++ {
			t = store(t, bvLit(uint64(i), 64), sel(a, app("bvadd", off, bvLit(uint64(i), 64))))
		}
		return ex.def("view", sArr(bv64, elSort), t)
	}
	nm := ex.fresh("view", sArr(bv64, elSort))
	ex.emit(fmt.Sprintf("(assert (forall ((i (_ BitVec 64))) (! (= (select %s i) (select %s (bvadd %s i))) :pattern ((select %s i)))))", nm, a, off, nm))
	return nm
}

func (ex *Exec) makeInterface(fr *Frame, st *State, in *ssa.MakeInterface) {
	xv := ex.value(fr, st, in.X)
	tag := fmt.Sprint(ex.typeTag("T:" + typeKey(in.X.Type())))
	var ref string
	ls := flatten(in.X.Type())
	if len(ls) == 1 && ls[0].Sort == sInt {
		ref = xv.L[0]
	} else {
		ref = ex.box(in.X.Type(), xv)
	}
	fr.vals[in] = Val{T: in.Type(), L: []string{tag, ref}, Clos: xv.Clos}
}

func (ex *Exec) box(T types.Type, v Val) string {
	ls := flatten(T)
	var sorts []string
	for _, l := range ls {
		sorts = append(sorts, l.Sort)
	}
	if len(ls) == 0 {
		return "0"
	}
	f := ex.declFun("box|"+typeKey(T), sorts, sInt)
	t := ex.def("box", sInt, app(f, v.L...))
	for i, l := range ls {
		u := ex.declFun(fmt.Sprintf("unbox|%s|%d", typeKey(T), i), []string{sInt}, l.Sort)
		ex.axiom(eq(app(u, t), v.L[i]))
	}
	ex.axiom("(< " + t + " 0)")
	return t
}

func (ex *Exec) unbox(T types.Type, ref string) Val {
	ls := flatten(T)
	out := Val{T: T, L: make([]string, len(ls))}
	if len(ls) == 1 && ls[0].Sort == sInt {
		out.L[0] = ref
		return out
	}
	for i, l := range ls {
		u := ex.declFun(fmt.Sprintf("unbox|%s|%d", typeKey(T), i), []string{sInt}, l.Sort)
		out.L[i] = app(u, ref)
	}
	ex.constrainLoaded(out)
	return out
}

func (ex *Exec) constrainLoaded(v Val) {
	pc := "true"
	if ex.curSt != nil {
		pc = ex.curSt.pc
	}
	if _, ok := v.T.Underlying().(*types.Slice); ok && len(v.L) == 4 {
		ex.assume(pc, and(nonNeg(v.L[2]), app("bvsle", v.L[2], v.L[3]), nonNeg(v.L[1]),
			app("bvult", v.L[1], "#x0000100000000000"), app("bvult", v.L[3], "#x0000100000000000"),
			implies(eq(v.L[0], "0"), eq(v.L[3], bvLit(0, 64)))))
	}
}

func (ex *Exec) typeAssert(fr *Frame, st *State, in *ssa.TypeAssert) {
	xv := ex.value(fr, st, in.X)
	var okc string
	var val Val
	if types.IsInterface(in.AssertedType) {
		// interface-to-interface: succeeds iff dynamic type implements it; non-nil is necessary
		okv := ex.fresh("implements", sBool)
		okc = and(not(eq(xv.L[0], "0")), okv)
		// if the static type already implements the asserted interface, only nil can fail
		if types.Implements(in.X.Type(), in.AssertedType.Underlying().(*types.Interface)) {
			okc = not(eq(xv.L[0], "0"))
		}
		val = Val{T: in.AssertedType, L: []string{ite(okc, xv.L[0], "0"), ite(okc, xv.L[1], "0")}}
	} else {
		tag := fmt.Sprint(ex.typeTag("T:" + typeKey(in.AssertedType)))
		okc = eq(xv.L[0], tag)
		val = ex.unbox(in.AssertedType, xv.L[1])
		val.Clos = xv.Clos
	}
	if in.CommaOk {
		okn := ex.def("ok", sBool, okc)
		z := zeroVal(in.AssertedType)
		out := Val{T: in.Type()}
		for i := range val.L {
			out.L = append(out.L, ite(okn, val.L[i], z.L[i]))
		}
		out.L = append(out.L, okn)
		fr.vals[in] = out
		return
	}
	ex.oblige(fr, st, "conv", "", okc, in.Pos(), "type assertion: "+ex.srcLine(in.Pos()))
	fr.vals[in] = val
}

func (ex *Exec) convert(fr *Frame, st *State, in *ssa.Convert) {
	xv := ex.value(fr, st, in.X)
	from, to := in.X.Type(), in.Type()
	lf, lt := flatten(from), flatten(to)
	if len(lf) == 1 && len(lt) == 1 {
		wf, wt := sortWidth(lf[0].Sort), sortWidth(lt[0].Sort)
		if wf > 0 && wt > 0 {
			var t string
			switch {
			case wt == wf:
				t = xv.L[0]
			case wt < wf:
				t = fmt.Sprintf("((_ extract %d 0) %s)", wt-1, xv.L[0])
			case isSigned(from):
				t = fmt.Sprintf("((_ sign_extend %d) %s)", wt-wf, xv.L[0])
			default:
				t = fmt.Sprintf("((_ zero_extend %d) %s)", wt-wf, xv.L[0])
			}
			fr.vals[in] = Val{T: to, L: []string{ex.def(in.Name(), lt[0].Sort, t)}}
			return
		}
		if lf[0].Sort == lt[0].Sort {
			fr.vals[in] = Val{T: to, L: xv.L}
			return
		}
	}
	// string <-> []byte
	if _, ok := to.Underlying().(*types.Slice); ok && len(lf) == 1 && lf[0].Sort == sStr {
		base := ex.newRef(st, "s2b")
		ln := app("strlen", xv.L[0])
		k := "M|" + sortKey(sBV(8))
		srt := sArr(sInt, sArr(bv64, sBV(8)))
		content := app("str_bytes", xv.L[0])
		ex.heapSet(st, k, srt, store(ex.heapGet(st, k, srt), base, content))
		fr.vals[in] = Val{T: to, L: []string{base, bvLit(0, 64), ln, ln}}
		return
	}
	if _, ok := from.Underlying().(*types.Slice); ok && len(lt) == 1 && lt[0].Sort == sStr {
		k := "M|" + sortKey(sBV(8))
		srt := sArr(sInt, sArr(bv64, sBV(8)))
		f := ex.declFun("bytes_str", []string{sArr(bv64, sBV(8)), bv64, bv64}, sStr)
		t := ex.def("b2s", sStr, app(f, sel(ex.heapGet(st, k, srt), xv.L[0]), xv.L[1], xv.L[2]))
		ex.axiom(eq(app("strlen", t), xv.L[2]))
		fr.vals[in] = Val{T: to, L: []string{t}}
		return
	}
	// slice -> array (Go 1.20)
	if A, ok := to.Underlying().(*types.Array); ok {
		if _, ok := from.Underlying().(*types.Slice); ok {
			ex.oblige(fr, st, "conv", "", app("bvsge", xv.L[2], bvLit(uint64(A.Len()), 64)), in.Pos(), "slice to array: "+ex.srcLine(in.Pos()))
			E := A.Elem()
			ls := flatten(E)
			out := Val{T: to, L: make([]string, len(ls))}
			for i, l := range ls {
				k := memKey(E, l, len(ls))
				srt := sArr(sInt, sArr(bv64, l.Sort))
				out.L[i] = ex.shiftedArray(sel(ex.heapGet(st, k, srt), xv.L[0]), xv.L[1], l.Sort, int(A.Len()))
			}
			fr.vals[in] = out
			return
		}
	}
	fr.vals[in] = ex.freshVal("conv", to)
}

func (ex *Exec) phi(fr *Frame, st *State, in *ssa.Phi) {
	b := in.Block()
	ls := flatten(in.Type())
	var out Val
	first := true
	for i, e := range in.Edges {
		p := b.Preds[i]
		c, ok := fr.edgeC[[2]int{p.Index, b.Index}]
		if !ok {
			continue
		}
		v := ex.value(fr, st, e)
		if first {
			out = Val{T: in.Type(), L: append([]string{}, v.L...), Clos: v.Clos}
			first = false
			continue
		}
		for k := range out.L {
			out.L[k] = ite(c, v.L[k], out.L[k])
		}
		if v.Clos != out.Clos {
			out.Clos = nil
		}
	}
	if first {
		out = ex.freshVal("phi", in.Type())
	}
	for k := range out.L {
		out.L[k] = ex.def(in.Name(), ls[k].Sort, out.L[k])
	}
	fr.vals[in] = out
}


// overflowCheck: opt-in obligation that an arithmetic operation does not wrap around.
func (ex *Exec) overflowCheck(fr *Frame, st *State, in *ssa.BinOp, a, b string, w int, signed bool) {
	ext := func(x string) string {
		if signed {
			return fmt.Sprintf("((_ sign_extend %d) %s)", w, x)
		}
		return fmt.Sprintf("((_ zero_extend %d) %s)", w, x)
	}
	op := map[token.Token]string{token.ADD: "bvadd", token.SUB: "bvsub", token.MUL: "bvmul"}[in.Op]
	wide := app(op, ext(a), ext(b))
	narrow := ext(app(op, a, b))
	ex.oblige(fr, st, "overflow", "", eq(wide, narrow), in.Pos(), fmt.Sprintf("%d-bit arithmetic wraps around: %s", w, ex.srcLine(in.Pos())))
}


// writeOnceCaptured reports a local variable cell that is assigned exactly once (its initialisation) and is
// otherwise only read, by the function or by the function literals that capture it; its address is never
// passed on. Such a cell keeps its value across calls.
func writeOnceCaptured(a *ssa.Alloc) bool {
	if !a.Heap || a.Referrers() == nil {
		return false
	}
	stores := 0
	for _, r := range *a.Referrers() {
		switch r := r.(type) {
		case *ssa.Store:
			if r.Addr != ssa.Value(a) || r.Val == ssa.Value(a) {
				return false
			}
			stores++
		case *ssa.UnOp:
			if r.Op != token.MUL {
				return false
			}
		case *ssa.DebugRef:
		case *ssa.MakeClosure:
			fn, ok := r.Fn.(*ssa.Function)
			if !ok {
				return false
			}
			for i, b := range r.Bindings {
				if b != ssa.Value(a) {
					continue
				}
				if i >= len(fn.FreeVars) || fn.FreeVars[i].Referrers() == nil {
					return false
				}
				for _, fr := range *fn.FreeVars[i].Referrers() {
					switch u := fr.(type) {
					case *ssa.UnOp:
						if u.Op != token.MUL {
							return false
						}
					case *ssa.DebugRef:
					default:
						return false
					}
				}
			}
		default:
			return false
		}
	}
	return stores == 1
}


// initialisedByErrorsNew: the package initialiser assigns the global exactly once, from errors.New(...).
func initialisedByErrorsNew(g *ssa.Global) bool {
	if g.Pkg == nil {
		return false
	}
	init := g.Pkg.Func("init")
	if init == nil {
		return false
	}
	n, okNew := 0, false
	for _, b := range init.Blocks {
		for _, in := range b.Instrs {
			st, ok := in.(*ssa.Store)
			if !ok || st.Addr != ssa.Value(g) {
				continue
			}
			n++
			if c, ok := st.Val.(*ssa.Call); ok {
				if fn := c.Call.StaticCallee(); fn != nil && calleeName(fn) == "errors.New" {
					okNew = true
				}
			}
		}
	}
	return n == 1 && okNew
}


// proofCut implements "cutat <callee>[#n] label: expr" of the root contract: just before the (n-th) call of <callee>
// in the function under verification, expr is an obligation; afterwards the heap, every local variable and every
// intermediate value are forgotten and only expr (plus the well-formedness of values) is assumed. Like a loop
// invariant, the clause must carry everything the rest of the function needs.
func (ex *Exec) proofCut(fr *Frame, st *State, in *ssa.Call) {
	root := ex.rootFrame
	if root == nil || root.ct == nil || len(root.ct.Cuts) == 0 || fr != root || ex.specMode != 0 {
		return
	}
	callee := ""
	if in.Call.IsInvoke() {
		callee = typeContractKey(in.Call.Value.Type()) + "." + in.Call.Method.Name()
	} else if fn := in.Call.StaticCallee(); fn != nil {
		callee = funcKey(fn)
	}
	if callee == "" {
		return
	}
	if ex.cutOrdinal == nil {
		ex.cutOrdinal = map[string]int{}
	}
	ex.cutOrdinal[callee]++
	ord := ex.cutOrdinal[callee]
	var here []CallSiteReq
	for _, cs := range root.ct.Cuts {
		want := cs.Callee
		if k := strings.LastIndex(want, "#"); k >= 0 {
			if want[k+1:] != fmt.Sprint(ord) {
				continue
			}
			want = want[:k]
		} else if ord != 1 {
			continue
		}
		if want != callee && !strings.HasSuffix(want, "."+callee) && !strings.HasSuffix(callee, "."+want) {
			continue
		}
		here = append(here, cs)
	}
	if len(here) == 0 {
		return
	}
	// all clauses of this cut are obligations in the state before the cut
	for _, cs := range here {
		// names denote the current values of the locals (parameters are spilled to locals in naive form)
		en := ex.newEnv(root, st, ex.preState, map[string]Val{})
		en.pos = in.Pos()
		t, err := en.evalBool(cs.E)
		if err != nil {
			ex.errors = append(ex.errors, fmt.Sprintf("%s: cutat %s: %v", cs.Line, cs.Label, err))
			continue
		}
		o := ex.oblige(fr, st, "pre", "cut:"+cs.Label+"@call:"+callee, t, in.Pos(), "proof cut holds before "+ex.srcLine(in.Pos())+": "+cs.Src)
		if o != nil {
			o.Props = cs.Props
			o.HasQuant = en.quant
		}
		ex.callSiteHits["cut:"+cs.Label]++
	}
	// forget everything
	ex.note("proof cut before the call of %s: heap, locals and intermediate values forgotten, the cut clauses assumed", callee)
	ex.calleeHavoc++
	ex.havocAll(st, "proof cut before "+callee)
	ex.calleeHavoc--
	for a := range st.vars {
		if paramSpill(a) {
			continue // a parameter that is never reassigned keeps its value
		}
		T := a.Type().(*types.Pointer).Elem()
		v := ex.freshVal("cut."+a.Comment, T)
		ex.constrainVal(v)
		ex.assumeAllocated(st, v)
		st.vars[a] = v
	}
	// the operands of the call itself were evaluated before the cut and stay what they are
	keep := map[ssa.Value]bool{}
	for _, op := range in.Operands(nil) {
		if op != nil && *op != nil {
			keep[*op] = true
		}
	}
	for k, v := range fr.vals {
		switch k.(type) {
		case *ssa.Parameter, *ssa.FreeVar, *ssa.Alloc, *ssa.MakeClosure, *ssa.Const, *ssa.Global, *ssa.Function:
			continue
		}
		if keep[k] || v.Clos != nil || v.T == nil {
			continue
		}
		nv := ex.freshVal("cutv."+k.Name(), v.T)
		ex.constrainVal(nv)
		ex.assumeAllocated(st, nv)
		fr.vals[k] = nv
	}
	for _, cs := range here {
		en2 := ex.newEnv(root, st, ex.preState, map[string]Val{})
		en2.pos = in.Pos()
		t2, err := en2.evalBool(cs.E)
		if err != nil {
			ex.errors = append(ex.errors, fmt.Sprintf("%s: cutat %s (after the cut): %v", cs.Line, cs.Label, err))
		} else {
			ex.assume(st.pc, t2)
		}
	}
	// objects this function has not written to satisfy their type invariants (as after any call)
	ex.reassumeRootInvs(st)
}

// paramSpill: the local holds a parameter (naive form spills parameters to locals) and is never assigned again.
func paramSpill(a *ssa.Alloc) bool {
	if a.Referrers() == nil {
		return false
	}
	n := 0
	for _, r := range *a.Referrers() {
		if st, ok := r.(*ssa.Store); ok && st.Addr == ssa.Value(a) {
			if _, isParam := st.Val.(*ssa.Parameter); !isParam {
				return false
			}
			n++
		}
	}
	return n == 1
}
