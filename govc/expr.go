package main

import (
	"fmt"
	"strings"
	"unicode"
)

// ---------- AST ----------

type Expr interface{}

type (
	ELit struct {
		Kind string // int, bool, string, nil
		Text string
	}
	EIdent struct{ Name string }
	ESel   struct {
		X    Expr
		Name string
	}
	EIndex struct{ X, I Expr }
	ESlice struct{ X, Lo, Hi Expr }
	ECall  struct {
		Fun  Expr
		Args []Expr
	}
	EUnary struct {
		Op string
		X  Expr
	}
	EBinary struct {
		Op   string
		X, Y Expr
	}
	EQuant struct {
		Forall bool
		Vars   []QVar
		Body   Expr
	}
	ECond struct{ C, A, B Expr }
	EType struct{ Text string } // type used as conversion head, e.g. []byte
)

type QVar struct{ Name, Type string }

// ---------- lexer ----------

type tok struct {
	kind string // id, int, str, op, eof
	text string
}

func lex(s string) ([]tok, error) {
	var ts []tok
	i := 0
	for i < len(s) {
		c := rune(s[i])
		switch {
		case unicode.IsSpace(c):
			i++
		case unicode.IsLetter(c) || c == '_':
			j := i
			for j < len(s) && (unicode.IsLetter(rune(s[j])) || unicode.IsDigit(rune(s[j])) || s[j] == '_') {
				j++
			}
			ts = append(ts, tok{"id", s[i:j]})
			i = j
		case unicode.IsDigit(c):
			j := i
			for j < len(s) && (unicode.IsDigit(rune(s[j])) || unicode.IsLetter(rune(s[j])) || s[j] == '_') {
				j++
			}
			ts = append(ts, tok{"int", strings.ReplaceAll(s[i:j], "_", "")})
			i = j
		case c == '"':
			j := i + 1
			for j < len(s) && s[j] != '"' {
				if s[j] == '\\' {
					j++
				}
				j++
			}
			if j >= len(s) {
				return nil, fmt.Errorf("unterminated string")
			}
			ts = append(ts, tok{"str", s[i+1 : j]})
			i = j + 1
		default:
			ops := []string{"<==>", "==>", "&&", "||", "==", "!=", "<=", ">=", "<<", ">>", "&^", "::",
				"+", "-", "*", "/", "%", "&", "|", "^", "<", ">", "!", "(", ")", "[", "]", ".", ",", ":", "?", "{", "}"}
			matched := false
			for _, op := range ops {
				if strings.HasPrefix(s[i:], op) {
					ts = append(ts, tok{"op", op})
					i += len(op)
					matched = true
					break
				}
			}
			if !matched {
				return nil, fmt.Errorf("unexpected character %q", c)
			}
		}
	}
	ts = append(ts, tok{"eof", ""})
	return ts, nil
}

// ---------- parser ----------

type parser struct {
	ts []tok
	p  int
}

func parseExpr(s string) (Expr, error) {
	ts, err := lex(s)
	if err != nil {
		return nil, err
	}
	ps := &parser{ts: ts}
	e, err := ps.expr(0)
	if err != nil {
		return nil, err
	}
	if ps.peek().kind != "eof" {
		return nil, fmt.Errorf("unexpected %q after expression", ps.peek().text)
	}
	return e, nil
}

func (ps *parser) peek() tok { return ps.ts[ps.p] }
func (ps *parser) next() tok  { t := ps.ts[ps.p]; ps.p++; return t }
func (ps *parser) accept(op string) bool {
	if t := ps.peek(); t.kind == "op" && t.text == op {
		ps.p++
		return true
	}
	return false
}
func (ps *parser) expect(op string) error {
	if !ps.accept(op) {
		return fmt.Errorf("expected %q, found %q", op, ps.peek().text)
	}
	return nil
}

var binPrec = map[string]int{
	"<==>": 1, "==>": 2, "||": 4, "&&": 5,
	"==": 6, "!=": 6, "<": 6, "<=": 6, ">": 6, ">=": 6,
	"+": 7, "-": 7, "|": 7, "^": 7,
	"*": 8, "/": 8, "%": 8, "<<": 8, ">>": 8, "&": 8, "&^": 8,
}

func (ps *parser) expr(minPrec int) (Expr, error) {
	// quantifiers
	if t := ps.peek(); t.kind == "id" && (t.text == "forall" || t.text == "exists") {
		ps.next()
		q := &EQuant{Forall: t.text == "forall"}
		for {
			name := ps.next()
			if name.kind != "id" {
				return nil, fmt.Errorf("quantifier: expected variable name")
			}
			typ, err := ps.typeText()
			if err != nil {
				return nil, err
			}
			q.Vars = append(q.Vars, QVar{name.text, typ})
			if !ps.accept(",") {
				break
			}
		}
		if err := ps.expect("::"); err != nil {
			return nil, err
		}
		body, err := ps.expr(0)
		if err != nil {
			return nil, err
		}
		q.Body = body
		return q, nil
	}
	lhs, err := ps.unary()
	if err != nil {
		return nil, err
	}
	for {
		t := ps.peek()
		if t.kind != "op" {
			break
		}
		if t.text == "?" && minPrec <= 3 {
			ps.next()
			a, err := ps.expr(3)
			if err != nil {
				return nil, err
			}
			if err := ps.expect(":"); err != nil {
				return nil, err
			}
			b, err := ps.expr(3)
			if err != nil {
				return nil, err
			}
			lhs = &ECond{lhs, a, b}
			continue
		}
		prec, ok := binPrec[t.text]
		if !ok || prec < minPrec {
			break
		}
		ps.next()
		var rhs Expr
		if t.text == "==>" { // right associative
			rhs, err = ps.expr(prec)
		} else {
			rhs, err = ps.expr(prec + 1)
		}
		if err != nil {
			return nil, err
		}
		lhs = &EBinary{t.text, lhs, rhs}
	}
	return lhs, nil
}

// typeText reads a type: id, pkg.id, []T, *T, map[K]V
func (ps *parser) typeText() (string, error) {
	var sb strings.Builder
	for {
		t := ps.peek()
		switch {
		case t.kind == "op" && t.text == "*":
			ps.next()
			sb.WriteString("*")
		case t.kind == "op" && t.text == "[":
			ps.next()
			if ps.accept("]") {
				sb.WriteString("[]")
			} else if ps.peek().kind == "int" {
				n := ps.next()
				if err := ps.expect("]"); err != nil {
					return "", err
				}
				sb.WriteString("[" + n.text + "]")
			} else {
				return "", fmt.Errorf("bad type")
			}
		case t.kind == "id" && t.text == "map":
			ps.next()
			if err := ps.expect("["); err != nil {
				return "", err
			}
			k, err := ps.typeText()
			if err != nil {
				return "", err
			}
			if err := ps.expect("]"); err != nil {
				return "", err
			}
			v, err := ps.typeText()
			if err != nil {
				return "", err
			}
			sb.WriteString("map[" + k + "]" + v)
			return sb.String(), nil
		case t.kind == "id":
			ps.next()
			sb.WriteString(t.text)
			if ps.peek().kind == "op" && ps.peek().text == "." {
				ps.next()
				n := ps.next()
				sb.WriteString("." + n.text)
			}
			return sb.String(), nil
		default:
			return "", fmt.Errorf("expected type, found %q", t.text)
		}
	}
}

func (ps *parser) unary() (Expr, error) {
	t := ps.peek()
	if t.kind == "op" {
		switch t.text {
		case "!", "-", "^":
			ps.next()
			x, err := ps.unary()
			if err != nil {
				return nil, err
			}
			return &EUnary{t.text, x}, nil
		}
	}
	return ps.postfix()
}

func (ps *parser) postfix() (Expr, error) {
	x, err := ps.primary()
	if err != nil {
		return nil, err
	}
	for {
		switch {
		case ps.accept("."):
			n := ps.next()
			if n.kind != "id" {
				return nil, fmt.Errorf("expected field name after '.'")
			}
			x = &ESel{x, n.text}
		case ps.accept("("):
			var args []Expr
			if !ps.accept(")") {
				for {
					a, err := ps.expr(0)
					if err != nil {
						return nil, err
					}
					args = append(args, a)
					if ps.accept(")") {
						break
					}
					if err := ps.expect(","); err != nil {
						return nil, err
					}
				}
			}
			x = &ECall{x, args}
		case ps.accept("["):
			var lo, hi Expr
			if ps.peek().kind == "op" && ps.peek().text == ":" {
				ps.next()
				if !(ps.peek().kind == "op" && ps.peek().text == "]") {
					hi, err = ps.expr(0)
					if err != nil {
						return nil, err
					}
				}
				if err := ps.expect("]"); err != nil {
					return nil, err
				}
				x = &ESlice{x, nil, hi}
				continue
			}
			lo, err = ps.expr(0)
			if err != nil {
				return nil, err
			}
			if ps.accept(":") {
				if !(ps.peek().kind == "op" && ps.peek().text == "]") {
					hi, err = ps.expr(0)
					if err != nil {
						return nil, err
					}
				}
				if err := ps.expect("]"); err != nil {
					return nil, err
				}
				x = &ESlice{x, lo, hi}
				continue
			}
			if err := ps.expect("]"); err != nil {
				return nil, err
			}
			x = &EIndex{x, lo}
		default:
			return x, nil
		}
	}
}

func (ps *parser) primary() (Expr, error) {
	t := ps.next()
	switch t.kind {
	case "int":
		return &ELit{"int", t.text}, nil
	case "str":
		return &ELit{"string", t.text}, nil
	case "id":
		switch t.text {
		case "true", "false":
			return &ELit{"bool", t.text}, nil
		case "nil":
			return &ELit{"nil", ""}, nil
		}
		return &EIdent{t.text}, nil
	case "op":
		if t.text == "(" {
			e, err := ps.expr(0)
			if err != nil {
				return nil, err
			}
			if err := ps.expect(")"); err != nil {
				return nil, err
			}
			return e, nil
		}
		if t.text == "[" { // []byte(x) style conversion head
			ps.p--
			ty, err := ps.typeText()
			if err != nil {
				return nil, err
			}
			return &EType{ty}, nil
		}
	}
	return nil, fmt.Errorf("unexpected %q", t.text)
}

func exprString(e Expr) string {
	switch e := e.(type) {
	case *ELit:
		if e.Kind == "string" {
			return fmt.Sprintf("%q", e.Text)
		}
		if e.Kind == "nil" {
			return "nil"
		}
		return e.Text
	case *EIdent:
		return e.Name
	case *ESel:
		return exprString(e.X) + "." + e.Name
	case *EIndex:
		return exprString(e.X) + "[" + exprString(e.I) + "]"
	case *ESlice:
		lo, hi := "", ""
		if e.Lo != nil {
			lo = exprString(e.Lo)
		}
		if e.Hi != nil {
			hi = exprString(e.Hi)
		}
		return exprString(e.X) + "[" + lo + ":" + hi + "]"
	case *ECall:
		var as []string
		for _, a := range e.Args {
			as = append(as, exprString(a))
		}
		return exprString(e.Fun) + "(" + strings.Join(as, ", ") + ")"
	case *EUnary:
		return e.Op + exprString(e.X)
	case *EBinary:
		return "(" + exprString(e.X) + " " + e.Op + " " + exprString(e.Y) + ")"
	case *EQuant:
		return "quant"
	case *ECond:
		return "(" + exprString(e.C) + " ? " + exprString(e.A) + " : " + exprString(e.B) + ")"
	case *EType:
		return e.Text
	}
	return "?"
}
