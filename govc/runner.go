package main

import (
	"bufio"
	"bytes"
	"context"
	"encoding/json"
	"io"
	"os"
	"os/exec"
	"sync"
	"time"
)

// A small helper process spawns the solvers: forking from the verifier itself is slow
// once the whole repository is loaded (hundreds of MB of heap).

type runReq struct {
	ID      int      `json:"id"`
	Bin     string   `json:"bin"`
	Args    []string `json:"args"`
	Timeout int64    `json:"timeout_ms"`
	Cancel  bool     `json:"cancel,omitempty"`
}

type runResp struct {
	ID   int     `json:"id"`
	Out  string  `json:"out"`
	Secs float64 `json:"secs"`
	TO   bool    `json:"to"`
}

func runnerMain() {
	in := bufio.NewReaderSize(os.Stdin, 1<<20)
	var mu sync.Mutex
	enc := json.NewEncoder(os.Stdout)
	cancels := map[int]context.CancelFunc{}
	for {
		line, err := in.ReadBytes('\n')
		if len(line) > 0 {
			var rq runReq
			if json.Unmarshal(line, &rq) == nil {
				if rq.Cancel {
					mu.Lock()
					if c := cancels[rq.ID]; c != nil {
						c()
					}
					mu.Unlock()
				} else {
					ctx, cancel := context.WithTimeout(context.Background(), time.Duration(rq.Timeout)*time.Millisecond)
					mu.Lock()
					cancels[rq.ID] = cancel
					mu.Unlock()
					go func(rq runReq) {
						t0 := time.Now()
						cmd := exec.CommandContext(ctx, rq.Bin, rq.Args...)
						var out bytes.Buffer
						cmd.Stdout = &out
						cmd.Stderr = &out
						_ = cmd.Run()
						to := ctx.Err() != nil
						cancel()
						s := out.String()
						if len(s) > 1<<20 {
							s = s[:1<<20]
						}
						mu.Lock()
						delete(cancels, rq.ID)
						_ = enc.Encode(runResp{ID: rq.ID, Out: s, Secs: time.Since(t0).Seconds(), TO: to})
						mu.Unlock()
					}(rq)
				}
			}
		}
		if err != nil {
			if err == io.EOF {
				// wait for running jobs to drain
				for {
					mu.Lock()
					n := len(cancels)
					mu.Unlock()
					if n == 0 {
						return
					}
					time.Sleep(20 * time.Millisecond)
				}
			}
			return
		}
	}
}

type runnerClient struct {
	cmd   *exec.Cmd
	in    io.WriteCloser
	mu    sync.Mutex
	next  int
	wait  map[int]chan runResp
}

var theRunner *runnerClient

func startRunner() {
	cmd := exec.Command(os.Args[0], "runner")
	in, _ := cmd.StdinPipe()
	out, _ := cmd.StdoutPipe()
	cmd.Stderr = os.Stderr
	if err := cmd.Start(); err != nil {
		return
	}
	rc := &runnerClient{cmd: cmd, in: in, wait: map[int]chan runResp{}}
	go func() {
		dec := json.NewDecoder(bufio.NewReaderSize(out, 1<<20))
		for {
			var r runResp
			if err := dec.Decode(&r); err != nil {
				return
			}
			rc.mu.Lock()
			ch := rc.wait[r.ID]
			delete(rc.wait, r.ID)
			rc.mu.Unlock()
			if ch != nil {
				ch <- r
			}
		}
	}()
	theRunner = rc
}

// run executes a command through the helper; ctx cancellation kills it.
func (rc *runnerClient) run(ctx context.Context, bin string, args []string, timeout time.Duration) (string, float64, bool) {
	rc.mu.Lock()
	rc.next++
	id := rc.next
	ch := make(chan runResp, 1)
	rc.wait[id] = ch
	b, _ := json.Marshal(runReq{ID: id, Bin: bin, Args: args, Timeout: timeout.Milliseconds()})
	_, _ = rc.in.Write(append(b, '\n'))
	rc.mu.Unlock()
	select {
	case r := <-ch:
		return r.Out, r.Secs, r.TO
	case <-ctx.Done():
		rc.mu.Lock()
		b, _ := json.Marshal(runReq{ID: id, Cancel: true})
		_, _ = rc.in.Write(append(b, '\n'))
		rc.mu.Unlock()
		r := <-ch
		return r.Out, r.Secs, true
	}
}
