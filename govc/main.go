package main

import (
	"flag"
	"fmt"
	"os"
	"sort"
	"strings"
	"time"
)

func defaultOptions() *Options {
	return &Options{InlineDepth: 4, MaxInstr: 60, Safety: true}
}

func main() {
	if len(os.Args) < 2 {
		fmt.Fprintln(os.Stderr, "usage: govc <fn|check|ssa|list> ...")
		os.Exit(2)
	}
	if os.Args[1] == "runner" {
		runnerMain()
		return
	}
	startRunner()
	defer func() {
		if theRunner != nil {
			theRunner.in.Close()
		}
	}()
	switch os.Args[1] {
	case "ssa":
		cmdSSA(os.Args[2:])
	case "fn":
		cmdFn(os.Args[2:])
	case "check":
		os.Exit(cmdCheck(os.Args[2:]))
	case "list":
		cmdList(os.Args[2:])
	default:
		fmt.Fprintln(os.Stderr, "unknown command", os.Args[1])
		os.Exit(2)
	}
}

func mustLoad(repo string) (*Program, *Contracts) {
	P, err := loadProgram(repo, []string{"./..."})
	if err != nil {
		fmt.Fprintln(os.Stderr, "load:", err)
		os.Exit(3)
	}
	C, err := loadContracts(repo)
	if err != nil {
		fmt.Fprintln(os.Stderr, "contracts:", err)
		os.Exit(3)
	}
	return P, C
}

func cmdSSA(args []string) {
	fs := flag.NewFlagSet("ssa", flag.ExitOnError)
	repo := fs.String("repo", "/repo", "repository")
	_ = fs.Parse(args)
	P, _ := mustLoad(*repo)
	for _, k := range fs.Args() {
		fn := P.Funcs[k]
		if fn == nil {
			fmt.Println("no such function:", k)
			continue
		}
		fn.WriteTo(os.Stdout)
		for _, l := range findLoops(fn) {
			fmt.Printf("# loop %d: head block %d (%s)\n", l.ord, l.head.Index, l.head.Comment)
		}
	}
}

func cmdList(args []string) {
	fs := flag.NewFlagSet("list", flag.ExitOnError)
	repo := fs.String("repo", "/repo", "repository")
	_ = fs.Parse(args)
	P, _ := mustLoad(*repo)
	for _, k := range P.sortedFuncKeys() {
		if len(fs.Args()) > 0 && !strings.HasPrefix(k, fs.Arg(0)) {
			continue
		}
		fmt.Println(k)
	}
}

// cmdFn verifies the named functions and prints every obligation (development aid).
func cmdFn(args []string) {
	fs := flag.NewFlagSet("fn", flag.ExitOnError)
	repo := fs.String("repo", "/repo", "repository")
	out := fs.String("out", "/verif/out/dev", "scratch directory")
	to := fs.Duration("timeout", 20*time.Second, "per-obligation timeout")
	verbose := fs.Bool("v", false, "print proved obligations too")
	_ = fs.Parse(args)
	P, C := mustLoad(*repo)
	for _, e := range C.Errors {
		fmt.Println("CONTRACT ERROR:", e)
	}
	var results []*FuncResult
	exs := map[string]*Exec{}
	for _, k := range fs.Args() {
		var keys []string
		if strings.HasSuffix(k, "*") {
			for _, fk := range P.sortedFuncKeys() {
				if strings.HasPrefix(fk, strings.TrimSuffix(k, "*")) && !strings.Contains(fk, "$") {
					keys = append(keys, fk)
				}
			}
		} else {
			keys = []string{k}
		}
		for _, fk := range keys {
			fn := P.Funcs[fk]
			if fn == nil {
				fmt.Println("no such function:", fk)
				continue
			}
			if len(fn.Blocks) == 0 || P.isTestFile(fn.Pos()) {
				continue
			}
			t0 := time.Now()
			r, ex := verifyFunction(P, C, fn, defaultOptions())
			r.Seconds = time.Since(t0).Seconds()
			results = append(results, r)
			exs[r.Key] = ex
		}
	}
	cfg := &solveCfg{outDir: *out, timeout: *to, first: 3 * time.Second, workers: 16, stats: newSolverStats()}
	solveAll(exs, results, cfg)
	nProved, nFailed, nOther := 0, 0, 0
	for _, r := range results {
		fmt.Printf("== %s  (%d obligations, gen %.2fs)\n", r.Key, len(r.Obls), r.Seconds)
		for _, e := range r.Errors {
			fmt.Println("   ERROR:", e)
		}
		for _, o := range r.Obls {
			switch o.Status {
			case "proved", "covered":
				nProved++
				if *verbose {
					fmt.Printf("   ok      %-60s %s %.2fs\n", o.Name, o.Solver, o.Seconds)
				}
			case "failed", "vacuous":
				nFailed++
				fmt.Printf("   %-7s %s [%s] %s\n           %s\n", strings.ToUpper(o.Status), o.Name, o.Pos, o.Solver, o.Detail)
				if len(o.Model) > 0 {
					ks := make([]string, 0, len(o.Model))
					for k := range o.Model {
						ks = append(ks, k)
					}
					sort.Strings(ks)
					var sb strings.Builder
					for _, k := range ks {
						if strings.Contains(k, "[") {
							continue
						}
						fmt.Fprintf(&sb, " %s=%s", k, o.Model[k])
					}
					fmt.Println("           model:" + sb.String())
				}
			default:
				nOther++
				fmt.Printf("   %-7s %s [%s] %s %.1fs\n           %s\n", strings.ToUpper(o.Status), o.Name, o.Pos, o.Solver, o.Seconds, o.Detail)
			}
		}
		if *verbose {
			for _, n := range r.Notes {
				fmt.Println("   note:", n)
			}
		}
	}
	fmt.Printf("proved=%d failed=%d undecided=%d solver-seconds=%v decided-by=%v\n", nProved, nFailed, nOther, cfg.stats.secs, cfg.stats.decided)
}

