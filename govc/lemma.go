package main

import (
	"go/token"
	"go/types"

	"golang.org/x/tools/go/ssa"
)

// verifyLemmas turns the named lemma blocks into obligations (pure SMT goals over spec functions).
func verifyLemmas(P *Program, C *Contracts, names []string) (*FuncResult, *Exec) {
	if len(names) == 0 {
		return nil, nil
	}
	res := &FuncResult{Key: "lemmas"}
	ex := newExec(P, C, nil, defaultOptions())
	ex.rootKey = "lemma"
	ex.preamble = append([]string{}, basePreamble...)
	st := &State{pc: "true", vars: map[*ssa.Alloc]Val{}, heap: map[string]string{}, defers: map[int][]deferred{}}
	st.allocCtr = ex.fresh("alloc0", sInt)
	ex.preState = st
	fr := &Frame{vals: map[ssa.Value]Val{}, regs: map[*ssa.Alloc]bool{}}
	for _, n := range names {
		var ld *LemmaDef
		for _, l := range C.Lemmas {
			if l.Name == n {
				ld = l
			}
		}
		if ld == nil {
			res.Errors = append(res.Errors, "lemma "+n+" not found in any contract file")
			continue
		}
		en := ex.newEnv(nil, st, st, nil)
		for path, p := range P.TPkgs {
			if shortPkg(path) == ld.Pkg {
				en.pkg = p
			}
		}
		t, err := en.evalBool(ld.Body)
		if err != nil {
			res.Errors = append(res.Errors, "lemma "+n+": "+err.Error())
			continue
		}
		o := ex.oblige(fr, st, "lemma", n, t, token.NoPos, "lemma "+n+": "+ld.Src)
		if o != nil {
			o.HasQuant = en.quant
		}
	}
	res.Obls = ex.obls
	res.Errors = append(res.Errors, ex.errors...)
	_ = types.Typ
	return res, ex
}
