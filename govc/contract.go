package main

import (
	"fmt"
	"os"
	"path/filepath"
	"sort"
	"strconv"
	"strings"
)

// Clause is one labelled contract expression.
type Clause struct {
	Label string
	Src   string
	E     Expr
	Loop  int    // for invariants / decreases
	Props []string // property ids this clause serves (from "[C03,C13]" tags)
	Line  string
}

// GhostUpdate is "update when <cond>: <lvalue> = <expr>" or "... : reset <lvalue>".
type GhostUpdate struct {
	Cond  Expr
	LHS   Expr
	RHS   Expr
	Reset bool
	Src   string
}

// CallSiteReq is an obligation on the arguments of calls made by this function:
// "callsite <callee-key> label: expr" with expr over arg0..argN and the caller's names.
type CallSiteReq struct {
	Callee string
	Clause
}

type FuncContract struct {
	Key       string // "m.NextRotateSwitchBlock", "state.SequenceHandler.Check"
	File      string
	Requires  []Clause
	Ensures   []Clause
	Function  bool
	Modifies  []Expr
	ModSrc    []string
	HasMod    bool
	Invs      []Clause
	Decreases []Clause
	Updates   []GhostUpdate
	CallSites []CallSiteReq
	Cuts      []CallSiteReq // cutat clauses
	Inline    bool
	Trusted   bool
	NoInv     bool
	MayPanic  bool
	NoSafety  bool
	ClausesOnly bool
	CutAfter  string // verify only the prefix of the body up to the first call of this callee
	Pure      bool
	NoOverflow bool
	NilRecv   bool
	ErrBreaks bool // when the function returns an error its arguments may be left in a broken state (no type invariants)
	CrashInvs []Clause // must hold in every state a crash inside an effectful call can leave behind
	Callers   []string // the only functions allowed to call this one (non-test module code)
	HasCallers bool
	Props     []string
	Havoc     []string // extra heap keys (prefixes) to havoc at calls
	AtExit    []Clause
	LoopForget map[int][]string // "loopforget <n> <heap key>": loop n forgets this memory as well; the invariants carry what is needed
	Verify    bool     // has clauses that need the body to be verified
}

type TypeContract struct {
	Key    string // "frame.FrameV1"
	Ghosts []GhostField
	Invs   []Clause
	Guards []GuardDecl
	Frozen []FrozenDecl
}

// FrozenDecl: fields that are assigned only while the object is being constructed by one of the listed functions.
type FrozenDecl struct {
	Fields []string
	Ctors  []string // function keys ("peering.newLinkBase")
	Line   string
}

type GhostField struct {
	Name string
	Type string
}

type GuardDecl struct {
	Fields []string
	Lock   string
}

type PredDef struct {
	Name   string
	Params []QVar
	Ret    string // "" = bool
	Body   Expr
	Src    string
	Pkg    string
}

type LemmaDef struct {
	Name  string
	Pkg   string
	Body  Expr
	Src   string
	Props []string
}

// PoolContract types a sync.Pool field: what Get yields and the invariant of pooled objects.
type PoolContract struct {
	Key    string // "frame.Builder.frameV1Pool"
	Yields string
	Invs   []Clause
}

type Contracts struct {
	Pools  map[string]*PoolContract
	Funcs  map[string]*FuncContract
	Types  map[string]*TypeContract
	Preds  map[string]*PredDef
	Lemmas []*LemmaDef
	Errors []string
	Files  []string
}

func newContracts() *Contracts {
	return &Contracts{Funcs: map[string]*FuncContract{}, Types: map[string]*TypeContract{}, Preds: map[string]*PredDef{}, Pools: map[string]*PoolContract{}}
}

// loadContracts reads every zz_verif_contracts.go under the repository.
func loadContracts(repo string) (*Contracts, error) {
	C := newContracts()
	var files []string
	err := filepath.Walk(repo, func(p string, info os.FileInfo, err error) error {
		if err != nil {
			return nil
		}
		if info.IsDir() && (info.Name() == ".git" || info.Name() == "node_modules") {
			return filepath.SkipDir
		}
		if !info.IsDir() && strings.HasPrefix(info.Name(), "zz_verif_contracts") && strings.HasSuffix(info.Name(), ".go") {
			files = append(files, p)
		}
		return nil
	})
	if err != nil {
		return nil, err
	}
	sort.Strings(files)
	for _, f := range files {
		rel, _ := filepath.Rel(repo, filepath.Dir(f))
		pkg := rel
		if rel == "." {
			pkg = "root"
		}
		data, err := os.ReadFile(f)
		if err != nil {
			return nil, err
		}
		C.Files = append(C.Files, f)
		C.parseFile(pkg, f, string(data))
	}
	return C, nil
}

var clauseKeywords = map[string]bool{
	"func": true, "type": true, "pred": true, "fun": true, "lemma": true,
	"requires": true, "ensures": true, "modifies": true, "invariant": true, "decreases": true, "atexit": true,
	"update": true, "option": true, "ghost": true, "guarded": true, "frozen": true, "props": true, "callsite": true, "havoc": true, "loopforget": true, "callers": true, "cutafter": true, "cutat": true, "pool": true, "yields": true, "crash_invariant": true,
}

func (C *Contracts) errorf(format string, a ...any) {
	C.Errors = append(C.Errors, fmt.Sprintf(format, a...))
}

func (C *Contracts) parseFile(pkg, file, src string) {
	// gather logical lines
	type lline struct {
		text string
		no   int
	}
	var lines []lline
	for i, raw := range strings.Split(src, "\n") {
		t := strings.TrimSpace(raw)
		if !strings.HasPrefix(t, "//@") {
			continue
		}
		t = strings.TrimSpace(strings.TrimPrefix(t, "//@"))
		if t == "" || strings.HasPrefix(t, "#") {
			continue
		}
		// strip trailing comment "  // ..."
		if k := strings.Index(t, " // "); k >= 0 {
			t = strings.TrimSpace(t[:k])
		}
		first := strings.Fields(t)[0]
		if clauseKeywords[first] || len(lines) == 0 {
			lines = append(lines, lline{t, i + 1})
		} else {
			lines[len(lines)-1].text += " " + t
		}
	}
	var curF *FuncContract
	var curT *TypeContract
	var curP *PoolContract
	qual := func(name string) string {
		if strings.Count(name, ".") >= 1 {
			head := name[:strings.Index(name, ".")]
			// already package-qualified if head is lower-case package-like and a known dir; heuristic: contains "/" or equals pkg
			if head == pkg || strings.Contains(head, "/") || knownPkgs[head] {
				return name
			}
		}
		return pkg + "." + name
	}
	for _, ln := range lines {
		where := fmt.Sprintf("%s:%d", file, ln.no)
		fs := strings.Fields(ln.text)
		kw := fs[0]
		rest := strings.TrimSpace(strings.TrimPrefix(ln.text, kw))
		switch kw {
		case "pool":
			key := qual(fs[1])
			curP = C.Pools[key]
			if curP == nil {
				curP = &PoolContract{Key: key}
				C.Pools[key] = curP
			}
			curF, curT = nil, nil
		case "yields":
			if curP == nil {
				C.errorf("%s: yields outside pool", where)
				continue
			}
			curP.Yields = rest
		case "func":
			curP = nil
			key := qual(fs[1])
			curF = C.Funcs[key]
			if curF == nil {
				curF = &FuncContract{Key: key, File: file}
				C.Funcs[key] = curF
			}
			curT = nil
		case "type":
			curP = nil
			key := qual(fs[1])
			curT = C.Types[key]
			if curT == nil {
				curT = &TypeContract{Key: key}
				C.Types[key] = curT
			}
			curF = nil
		case "pred", "fun":
			// pred name(a T, b T) = expr      fun name(a T) RetType = expr
			eqi := strings.Index(rest, "=")
			// find the '=' that is not part of '==' etc: first " = "
			if k := strings.Index(rest, " = "); k >= 0 {
				eqi = k + 1
			}
			if eqi < 0 {
				C.errorf("%s: malformed pred", where)
				continue
			}
			head, body := strings.TrimSpace(rest[:eqi]), strings.TrimSpace(rest[eqi+1:])
			lp, rp := strings.Index(head, "("), strings.LastIndex(head, ")")
			if lp < 0 || rp < lp {
				C.errorf("%s: malformed pred head", where)
				continue
			}
			pd := &PredDef{Name: strings.TrimSpace(head[:lp]), Src: body, Pkg: pkg, Ret: strings.TrimSpace(head[rp+1:])}
			for _, p := range strings.Split(head[lp+1:rp], ",") {
				p = strings.TrimSpace(p)
				if p == "" {
					continue
				}
				k := strings.Index(p, " ")
				if k < 0 {
					C.errorf("%s: pred parameter needs a type: %q", where, p)
					continue
				}
				pd.Params = append(pd.Params, QVar{Name: p[:k], Type: strings.TrimSpace(p[k+1:])})
			}
			e, err := parseExpr(body)
			if err != nil {
				C.errorf("%s: %v", where, err)
				continue
			}
			pd.Body = e
			C.Preds[pd.Name] = pd
		case "lemma":
			k := strings.Index(rest, ":")
			if k < 0 {
				C.errorf("%s: lemma needs a name", where)
				continue
			}
			name, props := splitProps(strings.TrimSpace(rest[:k]))
			e, err := parseExpr(rest[k+1:])
			if err != nil {
				C.errorf("%s: %v", where, err)
				continue
			}
			C.Lemmas = append(C.Lemmas, &LemmaDef{Name: name, Pkg: pkg, Body: e, Src: strings.TrimSpace(rest[k+1:]), Props: props})
		case "ghost":
			if curT == nil {
				C.errorf("%s: ghost outside type", where)
				continue
			}
			curT.Ghosts = append(curT.Ghosts, GhostField{Name: fs[1], Type: strings.TrimSpace(strings.TrimPrefix(rest, fs[1]))})
		case "guarded":
			if curT == nil {
				C.errorf("%s: guarded outside type", where)
				continue
			}
			k := strings.Index(rest, " by ")
			if k < 0 {
				C.errorf("%s: guarded ... by ...", where)
				continue
			}
			g := GuardDecl{Lock: strings.TrimSpace(rest[k+4:])}
			for _, f := range strings.Split(rest[:k], ",") {
				g.Fields = append(g.Fields, strings.TrimSpace(f))
			}
			curT.Guards = append(curT.Guards, g)
		case "frozen":
			if curT == nil {
				C.errorf("%s: frozen outside type", where)
				continue
			}
			k := strings.Index(rest, " by ")
			if k < 0 {
				C.errorf("%s: frozen <fields> by <constructors>", where)
				continue
			}
			fd := FrozenDecl{Line: where}
			for _, f := range strings.Split(rest[:k], ",") {
				fd.Fields = append(fd.Fields, strings.TrimSpace(f))
			}
			for _, f := range strings.Split(rest[k+4:], ",") {
				f = strings.TrimSpace(f)
				// either form may be meant: "newLinkBase" / "Type.Method" (this package) or "pkg.Func"
				fd.Ctors = append(fd.Ctors, f, pkg+"."+f)
			}
			curT.Frozen = append(curT.Frozen, fd)
		case "props":
			if curF != nil {
				for _, p := range strings.Split(rest, ",") {
					curF.Props = append(curF.Props, strings.TrimSpace(p))
				}
			}
		case "option":
			if curF == nil {
				C.errorf("%s: option outside func", where)
				continue
			}
			for _, o := range fs[1:] {
				switch strings.Trim(o, ",") {
				case "inline":
					curF.Inline = true
				case "trusted":
					curF.Trusted = true
				case "noinv":
					curF.NoInv = true
				case "maypanic":
					curF.MayPanic = true
				case "nosafety":
					curF.NoSafety = true
				case "clausesonly":
					// only the clauses written in the contract are checked in this body: safety conditions AND the
					// preconditions of callees are assumed (used for large functions of which one aspect is claimed)
					curF.NoSafety = true
					curF.ClausesOnly = true
				case "pure":
					curF.Pure = true
				case "function":
					// the results are a mathematical function of the (value-typed) arguments: assumed at every call,
					// justified by the structural scan structural:function:<key>
					curF.Function = true
				case "nooverflow":
					curF.NoOverflow = true
				case "nilrecv":
					curF.NilRecv = true
				case "errbreaks":
					curF.ErrBreaks = true
				default:
					C.errorf("%s: unknown option %q", where, o)
				}
			}
		case "callers":
			if curF != nil {
				curF.HasCallers = true
				for _, p := range strings.Split(rest, ",") {
					if p = strings.TrimSpace(p); p != "" && p != "none" {
						curF.Callers = append(curF.Callers, qual(p))
					}
				}
			}
		case "cutafter":
			// "cutafter <callee>": only the part of the function up to (and including) the first call of <callee> is verified
			if curF != nil {
				curF.CutAfter = strings.TrimSpace(rest)
			}
		case "loopforget":
			if curF != nil {
				fs := strings.Fields(rest)
				n := 0
				if len(fs) >= 2 {
					fmt.Sscanf(fs[0], "%d", &n)
				}
				if n <= 0 {
					C.errorf("%s: loopforget <loop ordinal> <heap key>", where)
					continue
				}
				if curF.LoopForget == nil {
					curF.LoopForget = map[int][]string{}
				}
				for _, p := range strings.Split(strings.Join(fs[1:], " "), ",") {
					curF.LoopForget[n] = append(curF.LoopForget[n], strings.TrimSpace(p))
				}
			}
		case "havoc":
			if curF != nil {
				for _, p := range strings.Split(rest, ",") {
					curF.Havoc = append(curF.Havoc, strings.TrimSpace(p))
				}
			}
		case "modifies":
			if curF == nil {
				C.errorf("%s: modifies outside func", where)
				continue
			}
			curF.HasMod = true
			if rest == "nothing" || rest == "" {
				continue
			}
			for _, d := range splitTop(rest, ',') {
				d = strings.TrimSpace(d)
				e, err := parseExpr(d)
				if err != nil {
					C.errorf("%s: %v", where, err)
					continue
				}
				curF.Modifies = append(curF.Modifies, e)
				curF.ModSrc = append(curF.ModSrc, d)
			}
		case "update":
			if curF == nil {
				C.errorf("%s: update outside func", where)
				continue
			}
			// update when COND: LHS = RHS   |   update when COND: reset LHS
			r := strings.TrimSpace(strings.TrimPrefix(rest, "when"))
			k := indexTop(r, ':')
			if k < 0 {
				C.errorf("%s: update when COND: ...", where)
				continue
			}
			ce, err := parseExpr(r[:k])
			if err != nil {
				C.errorf("%s: %v", where, err)
				continue
			}
			body := strings.TrimSpace(r[k+1:])
			gu := GhostUpdate{Cond: ce, Src: ln.text}
			if strings.HasPrefix(body, "reset ") {
				gu.Reset = true
				le, err := parseExpr(strings.TrimPrefix(body, "reset "))
				if err != nil {
					C.errorf("%s: %v", where, err)
					continue
				}
				gu.LHS = le
			} else {
				j := strings.Index(body, " = ")
				if j < 0 {
					C.errorf("%s: update needs ' = '", where)
					continue
				}
				le, err1 := parseExpr(body[:j])
				re, err2 := parseExpr(body[j+3:])
				if err1 != nil || err2 != nil {
					C.errorf("%s: %v %v", where, err1, err2)
					continue
				}
				gu.LHS, gu.RHS = le, re
			}
			curF.Updates = append(curF.Updates, gu)
		case "requires", "ensures", "invariant", "decreases", "atexit", "callsite", "cutat", "crash_invariant":
			cl := Clause{Line: where}
			body := rest
			callee := ""
			if kw == "callsite" || kw == "cutat" {
				f2 := strings.Fields(body)
				callee = f2[0]
				body = strings.TrimSpace(strings.TrimPrefix(body, callee))
			}
			if kw == "invariant" || kw == "decreases" || kw == "atexit" {
				if curF != nil && curP == nil {
					// loop ordinal first
					f2 := strings.Fields(body)
					n, err := strconv.Atoi(strings.Trim(f2[0], ":"))
					if err != nil {
						C.errorf("%s: %s needs a loop ordinal", where, kw)
						continue
					}
					cl.Loop = n
					body = strings.TrimSpace(strings.TrimPrefix(body, f2[0]))
				}
			}
			// optional "label:" prefix (identifier chars and dashes) possibly followed by [props]
			if k := indexTop(body, ':'); k > 0 && isLabel(body[:k]) && !strings.HasPrefix(body[k:], "::") {
				lab, props := splitProps(strings.TrimSpace(body[:k]))
				cl.Label, cl.Props = lab, props
				body = strings.TrimSpace(body[k+1:])
			}
			e, err := parseExpr(body)
			if err != nil {
				C.errorf("%s: %v (in %q)", where, err, body)
				continue
			}
			cl.E, cl.Src = e, body
			switch {
			case curP != nil && kw == "invariant":
				curP.Invs = append(curP.Invs, cl)
			case curT != nil && kw == "invariant":
				curT.Invs = append(curT.Invs, cl)
			case curF == nil:
				C.errorf("%s: %s outside func/type", where, kw)
			case kw == "requires":
				curF.Requires = append(curF.Requires, cl)
			case kw == "ensures":
				curF.Ensures = append(curF.Ensures, cl)
				curF.Verify = true
			case kw == "invariant":
				curF.Invs = append(curF.Invs, cl)
				curF.Verify = true
			case kw == "decreases":
				curF.Decreases = append(curF.Decreases, cl)
				curF.Verify = true
			case kw == "atexit":
				// "atexit <loop> label: expr": proved on every edge that leaves the loop, in that edge's own state
				// (before the exits are merged), and known afterwards
				curF.AtExit = append(curF.AtExit, cl)
				curF.Verify = true
			case kw == "callsite":
				curF.CallSites = append(curF.CallSites, CallSiteReq{Callee: qual(callee), Clause: cl})
				curF.Verify = true
			case kw == "cutat":
				// proof cut: the clause is proved just before the call, then everything else known is forgotten
				curF.Cuts = append(curF.Cuts, CallSiteReq{Callee: qual(callee), Clause: cl})
				curF.Verify = true
			case kw == "crash_invariant":
				curF.CrashInvs = append(curF.CrashInvs, cl)
				curF.Verify = true
			}
		default:
			C.errorf("%s: unknown keyword %q", where, kw)
		}
	}
}

var knownPkgs = map[string]bool{"m": true, "state": true, "frame": true, "peering": true, "switchr": true, "router": true,
	"config": true, "storage": true, "mgr": true, "root": true, "dns": true, "tun": true, "api/dns": true}

func isLabel(s string) bool {
	s = strings.TrimSpace(s)
	if k := strings.Index(s, "["); k >= 0 && strings.HasSuffix(s, "]") {
		s = strings.TrimSpace(s[:k])
	}
	if s == "" {
		return false
	}
	for _, c := range s {
		if !(c == '-' || c == '_' || c >= '0' && c <= '9' || c >= 'a' && c <= 'z' || c >= 'A' && c <= 'Z') {
			return false
		}
	}
	return true
}

// splitProps splits "label [C01,C13]" into label and property ids.
func splitProps(s string) (string, []string) {
	k := strings.Index(s, "[")
	if k < 0 || !strings.HasSuffix(s, "]") {
		return s, nil
	}
	var ps []string
	for _, p := range strings.Split(s[k+1:len(s)-1], ",") {
		ps = append(ps, strings.TrimSpace(p))
	}
	return strings.TrimSpace(s[:k]), ps
}

func splitTop(s string, sep byte) []string {
	var out []string
	d := 0
	last := 0
	for i := 0; i < len(s); i++ {
		switch s[i] {
		case '(', '[', '{':
			d++
		case ')', ']', '}':
			d--
		default:
			if s[i] == sep && d == 0 {
				out = append(out, s[last:i])
				last = i + 1
			}
		}
	}
	return append(out, s[last:])
}

func indexTop(s string, c byte) int {
	d := 0
	for i := 0; i < len(s); i++ {
		switch s[i] {
		case '(', '[', '{':
			d++
		case ')', ']', '}':
			d--
		default:
			if s[i] == c && d == 0 {
				return i
			}
		}
	}
	return -1
}
