package main

import (
	"regexp"
	"strings"
)

// Relevance pruning: a query restricted to the definitions the goal depends on and the
// assumptions that talk about them. Dropping assumptions can only make a proof harder, never
// unsound, so an "unsat" on the pruned query is a valid discharge; anything else falls back to the full query.

var symRe = regexp.MustCompile(`\|[^|]*\|`)

func symbolsOf(s string) []string { return symRe.FindAllString(s, -1) }

type prunedCmd struct {
	text  string
	def   string   // symbol defined/declared by this command ("" for asserts)
	syms  []string // symbols used
	isAss bool
}

func classify(c string) prunedCmd {
	pc := prunedCmd{text: c}
	t := strings.TrimSpace(c)
	switch {
	case strings.HasPrefix(t, "(define-fun "), strings.HasPrefix(t, "(declare-const "), strings.HasPrefix(t, "(declare-fun "):
		syms := symbolsOf(t)
		if len(syms) > 0 {
			pc.def = syms[0]
			pc.syms = syms[1:]
		}
		// multi-line Alt commands (declare + assert) are handled as a unit
	case strings.HasPrefix(t, "(assert "):
		pc.isAss = true
		pc.syms = symbolsOf(t)
	}
	return pc
}

// pruneQuery returns the pruned command list (as text) for the given goal.
func pruneQuery(preamble []string, cmds []string, goal string, rounds int) string {
	var all []prunedCmd
	for _, c := range preamble {
		all = append(all, classify(c))
	}
	for _, c := range cmds {
		all = append(all, classify(c))
	}
	defIdx := map[string][]int{}
	for i, c := range all {
		if c.def != "" {
			defIdx[c.def] = append(defIdx[c.def], i)
		}
	}
	keep := make([]bool, len(all))
	cone := map[string]bool{}
	var addSym func(s string)
	addSym = func(s string) {
		if cone[s] {
			return
		}
		cone[s] = true
		for _, i := range defIdx[s] {
			if !keep[i] {
				keep[i] = true
				for _, d := range all[i].syms {
					addSym(d)
				}
			}
		}
	}
	for _, s := range symbolsOf(goal) {
		addSym(s)
	}
	for r := 0; r < rounds; r++ {
		changed := false
		for i, c := range all {
			if !c.isAss || keep[i] {
				continue
			}
			hit := false
			for _, s := range c.syms {
				if cone[s] {
					hit = true
					break
				}
			}
			if !hit {
				continue
			}
			// skip heavy quantified assumptions in the first round unless they are about cone symbols only
			keep[i] = true
			changed = true
			for _, s := range c.syms {
				addSym(s)
			}
		}
		if !changed {
			break
		}
	}
	var sb strings.Builder
	for i, c := range all {
		if keep[i] || (c.def == "" && !c.isAss) {
			sb.WriteString(c.text)
			sb.WriteByte('\n')
		}
	}
	return sb.String()
}
