package main

import (
	"bytes"
	"context"
	"fmt"
	"os"
	"os/exec"
	"path/filepath"
	"regexp"
	"strings"
	"sync"
	"time"
)

// ---------- sorts ----------

const (
	sBool = "Bool"
	sInt  = "Int" // references, type tags, times
	sStr  = "Str"
	sOpq  = "Opq"
	sAddr = "(_ BitVec 130)"
)

func sBV(n int) string { return fmt.Sprintf("(_ BitVec %d)", n) }
func sArr(idx, el string) string {
	return "(Array " + idx + " " + el + ")"
}

var bv64 = sBV(64)

func bvLit(v uint64, n int) string {
	if n%4 == 0 {
		return fmt.Sprintf("#x%0*x", n/4, v&mask(n))
	}
	return fmt.Sprintf("(_ bv%d %d)", v&mask(n), n)
}

func mask(n int) uint64 {
	if n >= 64 {
		return ^uint64(0)
	}
	return (uint64(1) << uint(n)) - 1
}

func sortKey(s string) string {
	r := strings.NewReplacer("(", "", ")", "", " ", "", "_", "")
	return r.Replace(s)
}

// ---------- small term helpers ----------

func and(xs ...string) string {
	var ys []string
	for _, x := range xs {
		if x == "true" || x == "" {
			continue
		}
		if x == "false" {
			return "false"
		}
		ys = append(ys, x)
	}
	switch len(ys) {
	case 0:
		return "true"
	case 1:
		return ys[0]
	}
	return "(and " + strings.Join(ys, " ") + ")"
}

func or(xs ...string) string {
	var ys []string
	for _, x := range xs {
		if x == "false" || x == "" {
			continue
		}
		if x == "true" {
			return "true"
		}
		ys = append(ys, x)
	}
	switch len(ys) {
	case 0:
		return "false"
	case 1:
		return ys[0]
	}
	return "(or " + strings.Join(ys, " ") + ")"
}

func not(x string) string {
	switch x {
	case "true":
		return "false"
	case "false":
		return "true"
	}
	if strings.HasPrefix(x, "(not ") && balanced(x[5:len(x)-1]) {
		return x[5 : len(x)-1]
	}
	return "(not " + x + ")"
}

func balanced(s string) bool {
	d := 0
	for _, c := range s {
		switch c {
		case '(':
			d++
		case ')':
			d--
			if d < 0 {
				return false
			}
		}
	}
	return d == 0
}

func implies(a, b string) string {
	if a == "true" {
		return b
	}
	if b == "true" || a == "false" {
		return "true"
	}
	return "(=> " + a + " " + b + ")"
}
func eq(a, b string) string {
	if a == b {
		return "true"
	}
	return "(= " + a + " " + b + ")"
}
func ite(c, a, b string) string {
	if c == "true" {
		return a
	}
	if c == "false" {
		return b
	}
	if a == b {
		return a
	}
	return "(ite " + c + " " + a + " " + b + ")"
}
func app(f string, args ...string) string {
	return "(" + f + " " + strings.Join(args, " ") + ")"
}
func sel(a, i string) string      { return "(select " + a + " " + i + ")" }
func store(a, i, v string) string { return "(store " + a + " " + i + " " + v + ")" }

// ---------- query ----------

// Cmd is one SMT-LIB command; Alt (if set) is the cvc5 rendering (no lambda).
type Cmd struct {
	Z3  string
	Alt string
}

type Obligation struct {
	Name    string // line-free name
	Kind    string
	Func    string
	Pos     string
	Prefix  int    // number of commands that precede the goal
	PC      string // path condition
	Cond    string // property to prove under PC
	Detail  string
	Cover   bool // must be SAT (vacuity guard)
	Inputs  []ModelVar
	Witness map[string]string // extra terms to evaluate in the model
	Props   []string
	// results
	Status   string // proved | failed | unknown | covered | vacuous
	Solver   string
	Seconds  float64
	Model    map[string]string
	Raw      string
	SMTFile  string
	HasQuant bool
	Static   bool // decided structurally (no solver query)
}

// ModelVar names a term whose value we want from a counterexample.
type ModelVar struct {
	Name string
	Term string
}

type SolverResult struct {
	Status string // unsat | sat | unknown | timeout | error
	Solver string
	Secs   float64
	Out    string
}

var solverBins = []struct{ name, bin string }{
	{"z3-5.1.0", "z3-new"},
	{"z3-4.8.12", "z3"},
	{"cvc5-1.0", "cvc5"},
	// same binary, different strategy: eager bit-blasting decides the linear bit-vector chains
	// (frame size sums) on which the default combination of theories times out
	{"z3-5.1.0-bitblast", "z3-new"},
}

func solverArgs(name, file string, timeout time.Duration) []string {
	ms := fmt.Sprintf("%d", timeout.Milliseconds())
	switch {
	case name == "z3-5.1.0-bitblast":
		return []string{"-smt2", "-t:" + ms, "tactic.default_tactic=(then simplify solve-eqs max-bv-sharing bit-blast smt)", file}
	case strings.HasPrefix(name, "z3"):
		return []string{"-smt2", "-t:" + ms, file}
	default:
		return []string{"--lang=smt2", "--tlimit=" + ms, "--produce-models", "--arrays-exp", file}
	}
}

var lambdaRe = regexp.MustCompile(`\(lambda `)

func runSolver(ctx context.Context, name, bin, file string, timeout time.Duration) SolverResult {
	t0 := time.Now()
	cctx, cancel := context.WithTimeout(ctx, timeout+2*time.Second)
	defer cancel()
	var s string
	var secs float64
	if theRunner != nil {
		s, secs, _ = theRunner.run(cctx, bin, solverArgs(name, file, timeout), timeout+2*time.Second)
	} else {
		cmd := exec.CommandContext(cctx, bin, solverArgs(name, file, timeout)...)
		var out bytes.Buffer
		cmd.Stdout = &out
		cmd.Stderr = &out
		_ = cmd.Run()
		secs = time.Since(t0).Seconds()
		s = out.String()
	}
	first := strings.TrimSpace(strings.SplitN(s, "\n", 2)[0])
	st := "error"
	// a solver error before the answer means the query was malformed: never trust the answer
	for _, ln := range strings.Split(s, "\n") {
		ln = strings.TrimSpace(ln)
		if ln == "sat" || ln == "unsat" || ln == "unknown" {
			first = ln
			break
		}
		if strings.HasPrefix(ln, "(error") {
			return SolverResult{Status: "error", Solver: name, Secs: secs, Out: s}
		}
	}
	switch first {
	case "unsat", "sat", "unknown":
		st = first
	default:
		if strings.Contains(s, "timeout") || cctx.Err() != nil {
			st = "timeout"
		}
	}
	if st == "unknown" && (strings.Contains(s, "timeout") || strings.Contains(s, "canceled")) {
		st = "timeout"
	}
	return SolverResult{Status: st, Solver: name, Secs: secs, Out: s}
}

// raceSolvers runs the back ends in parallel; first definite answer wins.
func raceSolvers(z3file, cvcfile string, timeout time.Duration, only string) (SolverResult, []SolverResult) {
	ctx, cancel := context.WithCancel(context.Background())
	defer cancel()
	ch := make(chan SolverResult, len(solverBins))
	n := 0
	for _, sb := range solverBins {
		if only != "" && !strings.HasPrefix(sb.name, only) {
			continue
		}
		f := z3file
		if strings.HasPrefix(sb.name, "cvc5") {
			if cvcfile == "" {
				continue
			}
			f = cvcfile
		}
		n++
		go func(name, bin, f string) { ch <- runSolver(ctx, name, bin, f, timeout) }(sb.name, sb.bin, f)
	}
	var all []SolverResult
	var best SolverResult
	best.Status = "unknown"
	for i := 0; i < n; i++ {
		r := <-ch
		all = append(all, r)
		if r.Status == "unsat" || r.Status == "sat" {
			best = r
			cancel()
			// drain remaining (they will exit quickly)
			go func(k int) {
				for j := 0; j < k; j++ {
					<-ch
				}
			}(n - i - 1)
			return best, all
		}
		if best.Status == "unknown" && r.Status == "timeout" {
			best = r
		} else if best.Solver == "" {
			best = r
		}
	}
	return best, all
}

// ---------- solver statistics ----------

type solverStats struct {
	mu      sync.Mutex
	secs    map[string]float64
	decided map[string]int
}

func newSolverStats() *solverStats {
	return &solverStats{secs: map[string]float64{}, decided: map[string]int{}}
}

func (s *solverStats) add(all []SolverResult, winner SolverResult) {
	s.mu.Lock()
	defer s.mu.Unlock()
	for _, r := range all {
		s.secs[r.Solver] += r.Secs
	}
	if winner.Status == "unsat" || winner.Status == "sat" {
		s.decided[winner.Solver]++
	}
}

func writeFileMkdir(path string, data []byte) error {
	if err := os.MkdirAll(filepath.Dir(path), 0o755); err != nil {
		return err
	}
	return os.WriteFile(path, data, 0o644)
}

// parseModel extracts (define-fun name () sort value) entries and get-value pairs.
func parseModel(out string) map[string]string {
	m := map[string]string{}
	// get-value output: ((name value) ...)
	toks := tokenize(out)
	// scan for patterns: ( name value ) inside a top-level list after the sat line
	depth := 0
	for i := 0; i < len(toks); i++ {
		switch toks[i] {
		case "(":
			depth++
			if depth == 2 && i+1 < len(toks) && toks[i+1] != "(" {
				// (name <value...>)
				name := toks[i+1]
				j := i + 2
				start := j
				d := 0
				for ; j < len(toks); j++ {
					if toks[j] == "(" {
						d++
					} else if toks[j] == ")" {
						if d == 0 {
							break
						}
						d--
					}
				}
				m[strings.Trim(name, "|")] = strings.Join(toks[start:j], " ")
			}
		case ")":
			depth--
		}
	}
	return m
}

func tokenize(s string) []string {
	var toks []string
	i := 0
	for i < len(s) {
		c := s[i]
		switch {
		case c == '(' || c == ')':
			toks = append(toks, string(c))
			i++
		case c == ' ' || c == '\n' || c == '\t' || c == '\r':
			i++
		case c == '|':
			j := strings.IndexByte(s[i+1:], '|')
			if j < 0 {
				j = len(s) - i - 1
			}
			toks = append(toks, s[i:i+j+2])
			i += j + 2
		case c == '"':
			j := i + 1
			for j < len(s) && s[j] != '"' {
				j++
			}
			toks = append(toks, s[i:min(j+1, len(s))])
			i = j + 1
		default:
			j := i
			for j < len(s) && !strings.ContainsRune("() \n\t\r", rune(s[j])) {
				j++
			}
			toks = append(toks, s[i:j])
			i = j
		}
	}
	return toks
}

func contextBackground() context.Context { return context.Background() }

// positionalModel matches the get-value output "((t1 v1) (t2 v2) ...)" with the requested terms by position.
func positionalModel(out string, terms []ModelVar) map[string]string {
	m := map[string]string{}
	i := strings.Index(out, "\n")
	if i < 0 {
		return m
	}
	toks := tokenize(out[i+1:])
	// expect ( (term value) (term value) ... )
	p := 0
	if p >= len(toks) || toks[p] != "(" {
		return m
	}
	p++
	idx := 0
	for p < len(toks) && toks[p] == "(" && idx < len(terms) {
		// parse one s-expr: term
		p++
		p = skipSexp(toks, p)
		start := p
		p = skipSexp(toks, p)
		m[terms[idx].Name] = strings.Join(toks[start:p], " ")
		if p < len(toks) && toks[p] == ")" {
			p++
		}
		idx++
	}
	return m
}

func skipSexp(toks []string, p int) int {
	if p >= len(toks) {
		return p
	}
	if toks[p] != "(" {
		return p + 1
	}
	d := 0
	for p < len(toks) {
		if toks[p] == "(" {
			d++
		} else if toks[p] == ")" {
			d--
			if d == 0 {
				return p + 1
			}
		}
		p++
	}
	return p
}
