package main

import (
	"bytes"
	"os"
	"path/filepath"
	"strings"
	"text/template"
)

// replay tries to reproduce a counterexample on the real code.
func replay(P *Program, ex *Exec, o *Obligation, outDir string) (map[string]any, bool) {
	if ex == nil || ex.root == nil {
		return map[string]any{"replay": "no model-to-input mapping for this obligation (lemma over contracts)"}, false
	}
	return replayFunction(P, ex, o, outDir)
}

// A driver template realises a model through the public API when the counterexample is a
// history or an invariant pre-state rather than a call argument.
type tmplEntry struct {
	Match    string `json:"match"`    // prefix of the obligation name
	Template string `json:"template"` // file under /verif/templates
	Pkg      string `json:"pkg"`      // import path suffix of the package the test is injected into
	Oracle   string `json:"oracle"`   // marker | panic
}

var tmplIndex []tmplEntry
var tmplDir = "/verif/templates"

func templateFor(o *Obligation) *tmplEntry {
	if tmplIndex == nil {
		_ = readJSON(filepath.Join(tmplDir, "index.json"), &tmplIndex)
		if tmplIndex == nil {
			tmplIndex = []tmplEntry{}
		}
	}
	for i := range tmplIndex {
		if strings.HasPrefix(o.Name, tmplIndex[i].Match) {
			return &tmplIndex[i]
		}
	}
	return nil
}

func runTemplate(P *Program, ex *Exec, o *Obligation, outDir string, te *tmplEntry) (map[string]any, bool) {
	b, err := os.ReadFile(filepath.Join(tmplDir, te.Template))
	if err != nil {
		return map[string]any{"replay": "template missing: " + te.Template}, false
	}
	t, err := template.New("t").Parse(string(b))
	if err != nil {
		return map[string]any{"replay": "template error: " + err.Error()}, false
	}
	M := map[string]uint64{}
	for k, v := range o.Model {
		if u, ok := modelUint(v); ok {
			M[strings.NewReplacer(".", "_", "[", "_", "]", "").Replace(k)] = u
		}
	}
	var src bytes.Buffer
	if err := t.Execute(&src, map[string]any{"M": M, "Obligation": o.Name}); err != nil {
		return map[string]any{"replay": "template error: " + err.Error()}, false
	}
	var pkg = ex.root.Pkg.Pkg
	for path, p := range P.TPkgs {
		if shortPkg(path) == te.Pkg {
			pkg = p
		}
	}
	return runReplay(P, pkg, src.String(), o, outDir, te.Oracle)
}
