package main

import (
	"fmt"
	"go/token"
	"go/types"

	"golang.org/x/tools/go/ssa"
)

// ---------- maps ----------

func mapKeyNames(T types.Type) (has string, vals []string, ksort string, vleaves []Leaf, ok bool) {
	mt := T.Underlying().(*types.Map)
	ks := flatten(mt.Key())
	if len(ks) != 1 {
		return "", nil, "", nil, false
	}
	tk := typeKey(T.Underlying())
	has = "MP|" + tk + "|has"
	vleaves = flatten(mt.Elem())
	for _, l := range vleaves {
		vals = append(vals, "MP|"+tk+"|v"+l.Path)
	}
	return has, vals, ks[0].Sort, vleaves, true
}

func (ex *Exec) mapKeys(T types.Type) []string {
	has, vals, ksort, vl, ok := mapKeyNames(T)
	if !ok {
		return nil
	}
	ex.heapSort(has, sArr(sInt, sArr(ksort, sBool)))
	for i, v := range vals {
		ex.heapSort(v, sArr(sInt, sArr(ksort, vl[i].Sort)))
	}
	return append([]string{has}, vals...)
}

func (ex *Exec) initMap(st *State, T types.Type, ref string) {
	has, _, ksort, _, ok := mapKeyNames(T)
	if !ok {
		return
	}
	srt := sArr(sInt, sArr(ksort, sBool))
	ex.heapSet(st, has, srt, store(ex.heapGet(st, has, srt), ref, "((as const "+sArr(ksort, sBool)+") false)"))
}

// mapGet returns m[k] (zero value if absent) and the presence condition.
func (ex *Exec) mapGet(st *State, T types.Type, ref string, k Val) (Val, string) {
	mt := T.Underlying().(*types.Map)
	has, vals, ksort, vl, ok := mapKeyNames(T)
	if !ok {
		ex.note("map with composite key not modelled: %s", typeKey(T))
		return ex.freshVal("mapv", mt.Elem()), ex.fresh("maphas", sBool)
	}
	present := and(not(eq(ref, "0")), sel(sel(ex.heapGet(st, has, sArr(sInt, sArr(ksort, sBool))), ref), k.L[0]))
	out := Val{T: mt.Elem(), L: make([]string, len(vl))}
	for i, l := range vl {
		v := sel(sel(ex.heapGet(st, vals[i], sArr(sInt, sArr(ksort, l.Sort))), ref), k.L[0])
		out.L[i] = ite(present, v, zeroOf(l.Sort))
	}
	return out, present
}

func (ex *Exec) lookup(fr *Frame, st *State, in *ssa.Lookup) {
	xv := ex.value(fr, st, in.X)
	kv := ex.value(fr, st, in.Index)
	if _, ok := in.X.Type().Underlying().(*types.Map); !ok {
		// string index
		i := ex.toInt64(kv)
		ex.oblige(fr, st, "bounds", "", and(nonNeg(i), app("bvslt", i, app("strlen", xv.L[0]))), in.Pos(), ex.srcLine(in.Pos()))
		fr.vals[in] = Val{T: in.Type(), L: []string{app("str_at", xv.L[0], i)}}
		return
	}
	v, present := ex.mapGet(st, in.X.Type(), xv.L[0], kv)
	ls := flatten(v.T)
	for i := range v.L {
		v.L[i] = ex.def("mv", ls[i].Sort, v.L[i])
	}
	ex.afterLoad(fr, st, v)
	if in.CommaOk {
		out := Val{T: in.Type(), L: append(append([]string{}, v.L...), ex.def("mok", sBool, present))}
		fr.vals[in] = out
		return
	}
	fr.vals[in] = v
}

func (ex *Exec) mapUpdate(fr *Frame, st *State, in *ssa.MapUpdate) {
	mv := ex.value(fr, st, in.Map)
	kv := ex.value(fr, st, in.Key)
	vv := ex.value(fr, st, in.Value)
	ex.oblige(fr, st, "nil", "", not(eq(mv.L[0], "0")), in.Pos(), "assignment to entry in nil map: "+ex.srcLine(in.Pos()))
	// call-site event "map-update": arg0 the map, arg1 the key, arg2 the stored value
	ex.checkCallSites(fr, st, "map-update", []Val{mv, kv, vv}, in.Pos())
	if u, ok := in.Map.(*ssa.UnOp); ok {
		if fa, ok := u.X.(*ssa.FieldAddr); ok {
			if pt, ok := fa.X.Type().Underlying().(*types.Pointer); ok {
				if stT, ok := pt.Elem().Underlying().(*types.Struct); ok {
					// "map-update:<field>": updates of the map held in that struct field
					ex.checkCallSites(fr, st, "map-update:"+stT.Field(fa.Field).Name(), []Val{mv, kv, vv}, in.Pos())
				}
			}
		}
	}
	ex.mapSet(st, in.Map.Type(), mv.L[0], kv, vv, "true")
}

func (ex *Exec) mapSet(st *State, T types.Type, ref string, k, v Val, present string) {
	has, vals, ksort, vl, ok := mapKeyNames(T)
	if !ok {
		return
	}
	srt := sArr(sInt, sArr(ksort, sBool))
	h := ex.heapGet(st, has, srt)
	ex.writeObj(st, has, ref)
	ex.heapSet(st, has, srt, store(h, ref, store(sel(h, ref), k.L[0], present)))
	if present == "true" {
		for i, l := range vl {
			s2 := sArr(sInt, sArr(ksort, l.Sort))
			a := ex.heapGet(st, vals[i], s2)
			ex.heapSet(st, vals[i], s2, store(a, ref, store(sel(a, ref), k.L[0], v.L[i])))
		}
	}
}

func (ex *Exec) next(fr *Frame, st *State, in *ssa.Next) {
	out := ex.freshVal("next", in.Type())
	fr.vals[in] = out
	if in.IsString {
		return
	}
	// (ok, k, v): when ok the key is present and v is its value
	rng, _ := in.Iter.(*ssa.Range)
	if rng == nil {
		return
	}
	mT := rng.X.Type()
	mt, okm := mT.Underlying().(*types.Map)
	if !okm {
		return
	}
	mref := ex.value(fr, st, rng.X).L[0]
	tup := in.Type().(*types.Tuple)
	klo, khi := tupleRange(tup, 1)
	vlo, vhi := tupleRange(tup, 2)
	if khi-klo != len(flatten(mt.Key())) {
		return
	}
	kval := Val{T: mt.Key(), L: out.L[klo:khi]}
	mv, present := ex.mapGet(st, mT, mref, kval)
	ex.assume(st.pc, implies(out.L[0], present))
	if vhi-vlo == len(mv.L) {
		for i := range mv.L {
			ex.assume(st.pc, implies(out.L[0], eq(out.L[vlo+i], mv.L[i])))
		}
	}
	ex.afterLoad(fr, st, Val{T: mt.Elem(), L: out.L[vlo:vhi]})
}

// ---------- builtins ----------

func (ex *Exec) builtin(fr *Frame, st *State, b *ssa.Builtin, cc *ssa.CallCommon, args []Val, res ssa.Value, pos token.Pos) {
	set := func(v Val) {
		if res != nil {
			ex.setResult(fr, res, v)
		}
	}
	switch b.Name() {
	case "len", "cap":
		x := args[0]
		switch t := x.T.Underlying().(type) {
		case *types.Slice:
			if b.Name() == "len" {
				set(Val{L: []string{x.L[2]}})
			} else {
				set(Val{L: []string{x.L[3]}})
			}
		case *types.Basic:
			set(Val{L: []string{app("strlen", x.L[0])}})
		case *types.Array:
			set(Val{L: []string{bvLit(uint64(t.Len()), 64)}})
		case *types.Pointer:
			if a, ok := t.Elem().Underlying().(*types.Array); ok {
				set(Val{L: []string{bvLit(uint64(a.Len()), 64)}})
				return
			}
			set(ex.freshVal("len", types.Typ[types.Int]))
		case *types.Chan:
			cp := app(ex.declFun("chancap", []string{sInt}, bv64), x.L[0])
			if b.Name() == "cap" {
				set(Val{L: []string{cp}})
			} else {
				v := ex.freshVal("chanlen", types.Typ[types.Int])
				ex.assume(st.pc, and(nonNeg(v.L[0]), app("bvsle", v.L[0], cp)))
				set(v)
			}
		default:
			v := ex.freshVal("len", types.Typ[types.Int])
			ex.assume("true", nonNeg(v.L[0]))
			set(v)
		}
	case "copy":
		ex.checkCallSites(fr, st, "copy", args, pos)
		n := ex.copyMem(st, args[0], args[1])
		set(Val{L: []string{n}})
	case "clear":
		if sl, ok := args[0].T.Underlying().(*types.Slice); ok {
			ex.clearMem(st, sl.Elem(), args[0])
		} else {
			ex.havocKeys(st, ex.mapKeys(args[0].T))
		}
		set(Val{})
	case "append":
		ex.checkCallSites(fr, st, "append", args, pos)
		set(ex.appendOp(fr, st, cc, args, pos))
	case "delete":
		ex.checkCallSites(fr, st, "delete", args, pos)
		mt := args[0].T.Underlying().(*types.Map)
		_ = mt
		ex.mapSet(st, args[0].T, args[0].L[0], args[1], Val{}, "false")
		set(Val{})
	case "min", "max":
		x := args[0]
		for _, y := range args[1:] {
			w := sortWidth(flatten(x.T)[0].Sort)
			if w == 0 {
				x = ex.freshVal("minmax", x.T)
				break
			}
			op := "bvult"
			if isSigned(x.T) {
				op = "bvslt"
			}
			c := app(op, x.L[0], y.L[0])
			if b.Name() == "max" {
				c = app(op, y.L[0], x.L[0])
			}
			x = Val{T: x.T, L: []string{ite(c, x.L[0], y.L[0])}}
		}
		set(x)
	case "panic":
		ex.oblige(fr, st, "panic", "", "false", pos, "explicit panic reachable: "+ex.srcLine(pos))
	case "print", "println", "recover", "close":
		if b.Name() == "close" {
			// call-site event "close": arg0 the channel (closing a nil or closed channel panics; whether a channel
			// is already closed is not modelled - contracts state when a close may happen)
			ex.checkCallSites(fr, st, "close", args, pos)
		}
		if res != nil {
			set(ex.freshVal(b.Name(), res.Type()))
		}
	case "ssa:wrapnilchk":
		set(args[0])
	default:
		ex.note("builtin %s not modelled", b.Name())
		if res != nil {
			set(ex.freshVal(b.Name(), res.Type()))
		}
	}
}

// copyMem models copy(dst, src) for slices of scalar elements (and string sources).
func (ex *Exec) copyMem(st *State, dst, src Val) string {
	sl := dst.T.Underlying().(*types.Slice)
	E := sl.Elem()
	var slen string
	fromString := false
	if _, ok := src.T.Underlying().(*types.Slice); ok {
		slen = src.L[2]
	} else {
		slen = app("strlen", src.L[0])
		fromString = true
	}
	n := ex.def("cpn", bv64, ite(app("bvslt", dst.L[2], slen), dst.L[2], slen))
	if _, ok := isPlainStruct(E); ok {
		ex.note("copy of struct slices: destination fields havoced")
		ex.havocKeys(st, ex.structKeys(E))
		return n
	}
	ls := flatten(E)
	for li, l := range ls {
		k := memKey(E, l, len(ls))
		srt := sArr(sInt, sArr(bv64, l.Sort))
		m := ex.heapGet(st, k, srt)
		d := sel(m, dst.L[0])
		if li == 0 {
			ex.writeMem(st, []string{k}, dst.L[0], dst.L[1], app("bvadd", dst.L[1], n))
		}
		var srcAt func(i string) string
		if fromString {
			srcAt = func(i string) string { return app("str_at", src.L[0], i) }
		} else {
			s := sel(m, src.L[0])
			srcAt = func(i string) string { return sel(s, app("bvadd", src.L[1], i)) }
		}
		// new[i] = (doff <= i < doff+n) ? src[soff + (i-doff)] : d[i]
		body := func(i string) string {
			return ite(and(app("bvule", dst.L[1], i), app("bvult", i, app("bvadd", dst.L[1], n))),
				srcAt(app("bvsub", i, dst.L[1])), sel(d, i))
		}
		na := ex.bulkArray("cp", l.Sort, body)
		ex.heapSet(st, k, srt, store(m, dst.L[0], na))
	}
	return n
}

func (ex *Exec) clearMem(st *State, E types.Type, s Val) {
	if _, ok := isPlainStruct(E); ok {
		ex.note("clear of struct slices: fields havoced")
		ex.havocKeys(st, ex.structKeys(E))
		return
	}
	ls := flatten(E)
	for li, l := range ls {
		k := memKey(E, l, len(ls))
		srt := sArr(sInt, sArr(bv64, l.Sort))
		m := ex.heapGet(st, k, srt)
		d := sel(m, s.L[0])
		if li == 0 {
			ex.writeMem(st, []string{k}, s.L[0], s.L[1], app("bvadd", s.L[1], s.L[2]))
		}
		body := func(i string) string {
			return ite(and(app("bvule", s.L[1], i), app("bvult", i, app("bvadd", s.L[1], s.L[2]))), zeroOf(l.Sort), sel(d, i))
		}
		ex.heapSet(st, k, srt, store(m, s.L[0], ex.bulkArray("clr", l.Sort, body)))
	}
}

// bulkArray introduces an array defined pointwise: lambda for z3, quantified axiom for cvc5.
func (ex *Exec) bulkArray(hint, elSort string, body func(i string) string) string {
	if ex.inQuant > 0 || ex.noDef > 0 {
		return "(lambda ((bi (_ BitVec 64))) " + body("bi") + ")"
	}
	ex.ctr++
	n := quote(fmt.Sprintf("%s!%d", hint, ex.ctr))
	srt := sArr(bv64, elSort)
	z3 := "(define-fun " + n + " () " + srt + " (lambda ((bi (_ BitVec 64))) " + body("bi") + "))"
	alt := "(declare-const " + n + " " + srt + ")\n(assert (forall ((bi (_ BitVec 64))) (! (= (select " + n + " bi) " + body("bi") + ") :pattern ((select " + n + " bi)))))"
	ex.emitAlt(z3, alt)
	return n
}

func (ex *Exec) appendOp(fr *Frame, st *State, cc *ssa.CallCommon, args []Val, pos token.Pos) Val {
	s := args[0]
	sl := s.T.Underlying().(*types.Slice)
	E := sl.Elem()
	var addLen string
	add := args[1]
	fromString := false
	if _, ok := add.T.Underlying().(*types.Slice); ok {
		addLen = add.L[2]
	} else {
		addLen = app("strlen", add.L[0])
		fromString = true
	}
	newLen := ex.def("apl", bv64, app("bvadd", s.L[2], addLen))
	fits := ex.def("apfit", sBool, app("bvsle", newLen, s.L[3]))
	// new backing array when it does not fit
	nb := ex.newRef(st, "apnew")
	ncap := ex.fresh("apcap", bv64)
	ex.assume("true", and(app("bvsle", newLen, ncap), app("bvult", ncap, "#x0000100000000000")))
	base := ex.def("apb", sInt, ite(fits, s.L[0], nb))
	off := ex.def("apo", bv64, ite(fits, s.L[1], bvLit(0, 64)))
	cp := ex.def("apc", bv64, ite(fits, s.L[3], ncap))
	if S, ok := isPlainStruct(E); ok {
		flat := !fromString
		for i := 0; i < S.NumFields(); i++ {
			if _, nested := isPlainStruct(S.Field(i).Type()); nested {
				flat = false
			}
		}
		if tc := ex.C.Types[typeContractKey(E)]; tc != nil && len(tc.Ghosts) > 0 {
			flat = false
		}
		if !flat {
			ex.note("append to struct slice: element fields of the result are not tracked")
			ex.havocKeys(st, ex.structKeys(E))
			return Val{T: s.T, L: []string{base, off, newLen, cp}}
		}
		// elements are objects elem(base, index); every field array is rewritten for the element objects of the
		// result's backing store: old elements copied, new elements taken from the appended slice
		ex.inQuant++
		kind := ex.declFun("refkind", []string{sInt}, sInt)
		pb := ex.declFun("elemb|"+typeKey(E), []string{sInt}, sInt)
		pi := ex.declFun("elemi|"+typeKey(E), []string{sInt}, bv64)
		id := fmt.Sprint(ex.typeTag("elem|" + typeKey(E)))
		r := "br"
		rel := app("bvsub", app(pi, r), off)
		// (an index below off makes rel wrap around to a huge value, which is not below any length)
		mine := and(eq(app(kind, r), id), eq(app(pb, r), base))
		oldEl := ex.elemRef(E, s.L[0], app("bvadd", s.L[1], rel))
		newEl := ex.elemRef(E, add.L[0], app("bvadd", add.L[1], app("bvsub", rel, s.L[2])))
		ex.inQuant--
		for i := 0; i < S.NumFields(); i++ {
			f := S.Field(i)
			for _, l := range flatten(f.Type()) {
				k := fieldKey(E, f.Name(), l.Path)
				srt := sArr(sInt, l.Sort)
				a := ex.heapGet(st, k, srt)
				body := ite(and(mine, app("bvult", rel, s.L[2])), sel(a, oldEl),
					ite(and(mine, app("bvult", rel, newLen)), sel(a, newEl), sel(a, r)))
				ex.ctr++
				n := quote(fmt.Sprintf("apps!%d", ex.ctr))
				z3 := "(define-fun " + n + " () " + srt + " (lambda ((br Int)) " + body + "))"
				alt := "(declare-const " + n + " " + srt + ")\n(assert (forall ((br Int)) (! (= (select " + n + " br) " + body + ") :pattern ((select " + n + " br)))))"
				ex.emitAlt(z3, alt)
				ex.heapSet(st, k, srt, n)
			}
		}
		return Val{T: s.T, L: []string{base, off, newLen, cp}}
	}
	ls := flatten(E)
	for li, l := range ls {
		k := memKey(E, l, len(ls))
		srt := sArr(sInt, sArr(bv64, l.Sort))
		m := ex.heapGet(st, k, srt)
		old := sel(m, s.L[0])
		if li == 0 {
			ex.writeMem(st, []string{k}, s.L[0], app("bvadd", s.L[1], s.L[2]), ite(fits, app("bvadd", s.L[1], newLen), app("bvadd", s.L[1], s.L[2])))
		}
		var srcAt func(i string) string
		if fromString {
			srcAt = func(i string) string { return app("str_at", add.L[0], i) }
		} else {
			a := sel(m, add.L[0])
			srcAt = func(i string) string { return sel(a, app("bvadd", add.L[1], i)) }
		}
		body := func(i string) string {
			rel := app("bvsub", i, off)
			return ite(and(app("bvule", off, i), app("bvult", rel, s.L[2])), sel(old, app("bvadd", s.L[1], rel)),
				ite(and(app("bvule", off, i), app("bvult", rel, newLen)), srcAt(app("bvsub", rel, s.L[2])),
					ite(fits, sel(old, i), zeroOf(l.Sort))))
		}
		ex.heapSet(st, k, srt, store(m, base, ex.bulkArray("app", l.Sort, body)))
	}
	return Val{T: s.T, L: []string{base, off, newLen, cp}}
}
