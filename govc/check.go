package main

import (
	"encoding/json"
	"flag"
	"fmt"
	"os"
	"path/filepath"
	"sort"
	"strings"
	"time"
)

// PropSpec says which functions and lemmas decide a property.
type PropSpec struct {
	Funcs       []string `json:"funcs"`
	Lemmas      []string `json:"lemmas"`
	Assumptions []string `json:"assumptions"`
	Trusted     []string `json:"trusted"`
	Floor       int      `json:"floor"`
	WorkerRules bool     `json:"worker_rules"`
	Note        string   `json:"note"`
}

type KnownFinding struct {
	Property   string `json:"property"`
	Obligation string `json:"obligation"`
	What       string `json:"what"`
	Status     string `json:"status"` // open | fixed
	Commit     string `json:"commit,omitempty"`
}

type evidenceFile struct {
	PropertyID  string         `json:"property_id"`
	Tier        string         `json:"tier"`
	Seed        int            `json:"seed"`
	Level       string         `json:"level"`
	Coverage    map[string]any `json:"coverage"`
	Assumptions []string       `json:"assumptions"`
	WallS       float64        `json:"wall_s"`
	Violations  int            `json:"violations"`
}

func readJSON(path string, v any) error {
	b, err := os.ReadFile(path)
	if err != nil {
		return err
	}
	return json.Unmarshal(b, v)
}

func cmdCheck(args []string) int {
	fs := flag.NewFlagSet("check", flag.ExitOnError)
	repo := fs.String("repo", "/repo", "repository")
	prop := fs.String("prop", "", "property id")
	tier := fs.String("tier", "quick", "quick|thorough")
	root := fs.String("verif", "/verif", "verif directory")
	extra := fs.String("extra", "", "JSON file with results of bounded stand-ins to merge into the evidence")
	outdirFlag := fs.String("outdir", "", "scratch directory (default <verif>/out/<prop>)")
	noEvidence := fs.Bool("noevidence", false, "do not write the evidence file (self-tests on scratch copies)")
	noRetry := fs.Bool("noretry", false, "no second attempt with a longer limit for undecided obligations (must-fail runs: an undecided obligation is the expected outcome)")
	_ = fs.Parse(args)
	t0 := time.Now()
	seed := 0
	fmt.Sscan(os.Getenv("VERIF_SEED"), &seed)
	var specs map[string]*PropSpec
	if err := readJSON(filepath.Join(*root, "props.json"), &specs); err != nil {
		fmt.Println("cannot read props.json:", err)
		return 2
	}
	spec := specs[*prop]
	if spec == nil {
		fmt.Println("unknown property", *prop)
		return 2
	}
	var known []KnownFinding
	_ = readJSON(filepath.Join(*root, "known_findings.json"), &known)
	outDir := filepath.Join(*root, "out", *prop)
	if *outdirFlag != "" {
		outDir = *outdirFlag
	}
	_ = os.RemoveAll(outDir)
	_ = os.MkdirAll(filepath.Join(outDir, "replays"), 0o755)

	type violation struct {
		obl    string
		replay string
		conf   bool
		what   string
	}
	var viols []violation
	addViol := func(obl, what, raw string, o *Obligation, confirmed bool, rep map[string]any) {
		path := filepath.Join(outDir, "replays", safeName(obl)+".json")
		doc := map[string]any{"property": *prop, "obligation": obl, "what": what, "solver_output": raw, "verdict": "no-failing-input-found"}
		if confirmed {
			doc["verdict"] = "confirmed"
		}
		if o != nil {
			doc["function"] = o.Func
			doc["position"] = o.Pos
			doc["kind"] = o.Kind
			doc["solver"] = o.Solver
			doc["model"] = o.Model
			doc["smt2"] = o.SMTFile
			doc["detail"] = o.Detail
		}
		for k, v := range rep {
			doc[k] = v
		}
		b, _ := json.MarshalIndent(doc, "", " ")
		_ = os.WriteFile(path, b, 0o644)
		viols = append(viols, violation{obl: obl, replay: path, conf: confirmed, what: what})
	}

	P, err := loadProgram(*repo, []string{"./..."})
	if err != nil {
		fmt.Println("cannot load the repository (does it compile with -tags verif?):", err)
		return 2
	}
	C, err := loadContracts(*repo)
	if err != nil {
		fmt.Println("cannot load contracts:", err)
		return 2
	}
	for _, e := range C.Errors {
		addViol("contracts/parse", "contract file error: "+e, e, nil, false, nil)
	}
	timeout := 25 * time.Second
	if *tier == "thorough" {
		timeout = 180 * time.Second
	}
	cfg := &solveCfg{outDir: outDir, timeout: timeout, first: 4 * time.Second, workers: 12, stats: newSolverStats(), agree: *tier == "thorough"}
	cfg.retried = *noRetry
	cfg.expectFail = map[string]bool{}
	for _, k := range known {
		if k.Status != "fixed" {
			cfg.expectFail[k.Obligation] = true
		}
	}

	var results []*FuncResult
	exs := map[string]*Exec{}
	var funcs []string
	for _, pat := range spec.Funcs {
		if strings.HasSuffix(pat, "*") {
			for _, k := range P.sortedFuncKeys() {
				if strings.HasPrefix(k, strings.TrimSuffix(pat, "*")) && !strings.Contains(k, "$") && !P.isTestFile(P.Funcs[k].Pos()) {
					funcs = append(funcs, k)
				}
			}
		} else {
			funcs = append(funcs, pat)
		}
	}
	for _, k := range funcs {
		fn := P.Funcs[k]
		if fn == nil || len(fn.Blocks) == 0 {
			addViol(k+"/exists", "function under contract no longer exists: "+k, "", nil, false, nil)
			continue
		}
		tf := time.Now()
		r, ex := verifyFunction(P, C, fn, defaultOptions())
		r.Seconds = time.Since(tf).Seconds()
		results = append(results, r)
		exs[r.Key] = ex
		for _, e := range r.Errors {
			addViol(k+"/contract", "contract of "+k+" does not apply to the code: "+e, e, nil, false, nil)
		}
	}
	// contracts that name functions which do not exist
	for key, ct := range C.Funcs {
		if it, _ := P.ifaceOfKey(key); it != nil {
			continue // contract on an interface method: checked on every implementation
		}
		if P.Funcs[key] == nil {
			for _, k := range funcs {
				_ = k
			}
			if inProps(ct.Props, *prop) || containsStr(funcs, key) {
				addViol(key+"/exists", "contract names a function that does not exist: "+key, "", nil, false, nil)
			}
		}
	}
	// lemmas
	lemRes, lemEx := verifyLemmas(P, C, spec.Lemmas)
	if lemRes != nil {
		results = append(results, lemRes)
		exs[lemRes.Key] = lemEx
		for _, e := range lemRes.Errors {
			addViol("lemma/contract", e, e, nil, false, nil)
		}
	}
	if spec.WorkerRules {
		results = append(results, structuralWorkerObligations(P))
	}
	if fr := structuralFrozenObligations(P, C); fr != nil {
		results = append(results, fr)
	}
	if fr := structuralFunctionObligations(P, C); fr != nil {
		results = append(results, fr)
	}
	// clauses tagged for one property only ("[C12!]") are decided by that property's check alone; the checks of other
	// properties that share the function use them as proved facts (both checks run on the same tree)
	for _, r := range results {
		kept := r.Obls[:0]
		for _, o := range r.Obls {
			excl, mine := false, false
			for _, p := range o.Props {
				if strings.HasSuffix(p, "!") {
					excl = true
					if p == *prop+"!" {
						mine = true
					}
				}
			}
			if excl && !mine {
				continue
			}
			kept = append(kept, o)
		}
		r.Obls = kept
	}
	solveAll(exs, results, cfg)

	// classify
	total, discharged, covers := 0, 0, 0
	byKind := map[string]int{}
	var slow []map[string]any
	var samples []any
	var undecided []string
	var unreachable []string
	var fnames []string
	notes := map[string]bool{}
	trusted := map[string]bool{}
	assumed := map[string]bool{}
	inlined := map[string]bool{}
	knownHit := map[string]bool{}
	for _, r := range results {
		fnames = append(fnames, r.Key)
		for _, n := range r.Notes {
			notes[n] = true
		}
		for _, n := range r.Trusted {
			trusted[n] = true
		}
		for _, n := range r.Assumed {
			assumed[n] = true
		}
		for _, n := range r.Inlined {
			inlined[n] = true
		}
		for _, o := range r.Obls {
			if o.Cover {
				covers++
				if o.Status == "vacuous" && !strings.Contains(o.Name, "/cover:entry") {
					unreachable = append(unreachable, o.Name)
				}
				if o.Status == "vacuous" && strings.Contains(o.Name, "/cover:entry") {
					addViol(o.Name, "vacuity guard: the assumptions at "+o.Name+" are contradictory (nothing is reachable)", o.Raw, o, false, nil)
				}
				continue
			}
			total++
			byKind[o.Kind]++
			if o.Seconds > 2 {
				slow = append(slow, map[string]any{"obligation": o.Name, "seconds": round2(o.Seconds), "solver": o.Solver})
			}
			if len(samples) < 6 && o.Status == "proved" && (o.Kind == "post" || o.Kind == "inv-pres" || o.Kind == "lemma" || o.Kind == "assigns" || len(samples) < 2) {
				samples = append(samples, map[string]any{"obligation": o.Name, "kind": o.Kind, "what": o.Detail, "at": o.Pos, "solver": o.Solver, "smt2": o.SMTFile})
			}
			switch o.Status {
			case "proved":
				discharged++
			case "failed", "unknown", "timeout":
				kf := matchKnown(known, *prop, o.Name)
				if kf != nil {
					knownHit[kf.Obligation] = true
					continue
				}
				if o.Status == "failed" {
					rep, ok := replay(P, exs[r.Key], o, outDir)
					addViol(o.Name, o.Detail, o.Raw, o, ok, rep)
				} else {
					undecided = append(undecided, o.Name)
					addViol(o.Name, "obligation no longer discharges ("+o.Status+"): "+o.Detail, o.Raw, o, false, nil)
				}
			}
		}
	}
	for _, kf := range known {
		if kf.Status != "fixed" && knownHit[kf.Obligation] {
			if kf.Property == *prop {
				fmt.Printf("KNOWN-FINDING: property=%s %s (%s)\n", *prop, kf.What, kf.Obligation)
			} else {
				fmt.Printf("KNOWN-FINDING: property=%s [recorded under %s, obligation on a function shared with this property] %s (%s)\n", *prop, kf.Property, kf.What, kf.Obligation)
			}
		}
	}
	if total < spec.Floor {
		addViol("vacuity/obligation-floor", fmt.Sprintf("only %d obligations were generated, the committed floor is %d (generator or contract files regressed)", total, spec.Floor), "", nil, false, nil)
	}
	nKnown := 0
	for range knownHit {
		nKnown++
	}

	// evidence
	ev := evidenceFile{PropertyID: *prop, Tier: *tier, Seed: seed, Level: "proof", WallS: round2(time.Since(t0).Seconds()), Violations: len(viols)}
	secs := map[string]float64{}
	for k, v := range cfg.stats.secs {
		secs[k] = round2(v)
	}
	sort.Strings(fnames)
	tb := []string{"govc (the SSA-to-SMT generator in /verif/govc) and golang.org/x/tools/go/ssa v0.50.0", "z3 4.8.12, z3 5.1.0, cvc5 1.0"}
	for n := range trusted {
		tb = append(tb, "trusted library spec: "+n)
	}
	for n := range assumed {
		tb = append(tb, "assumed (verified separately where listed under functions): "+n)
	}
	tb = append(tb, spec.Trusted...)
	sort.Strings(tb[2:])
	var ns []string
	for n := range notes {
		ns = append(ns, n)
	}
	sort.Strings(ns)
	var il []string
	for n := range inlined {
		il = append(il, n)
	}
	sort.Strings(il)
	ev.Coverage = map[string]any{
		"obligations":          total - nKnownObls(results, known, *prop),
		"discharged":           discharged,
		"checker_cmd":          fmt.Sprintf("/verif/bin/govc check -prop %s -tier %s", *prop, *tier),
		"trusted_base":         tb,
		"functions_under_contract": fnames,
		"functions_inlined_at_call_sites": il,
		"obligations_by_kind":  byKind,
		"cover_checks":         covers,
		"decided_by_backend":   cfg.stats.decided,
		"solver_seconds":       secs,
		"slow_obligations":     slow,
		"samples":              samples,
		"undecided":            undecided,
		"unreachable_points":   unreachable,
		"known_findings_open":  nKnown,
		"unmodelled":           ns,
		"integers":             "fixed-width bit-vectors (int/uint 64 bit); no mathematical-integer abstraction",
		"explanation":          spec.Note,
	}
	if *extra != "" {
		var ex map[string]any
		if err := readJSON(*extra, &ex); err == nil {
			for k, v := range ex {
				ev.Coverage[k] = v
			}
		}
	}
	ev.Assumptions = append([]string{}, spec.Assumptions...)
	ev.Assumptions = append(ev.Assumptions,
		"goroutines, channels and select are not modelled (sequential reasoning per function; see DESIGN.md 2.7, 2.9)",
		"library functions without a spec return unconstrained values and only change memory reachable from their slice/pointer arguments")
	b, _ := json.MarshalIndent(ev, "", " ")
	if !*noEvidence {
		_ = os.MkdirAll(filepath.Join(*root, "evidence"), 0o755)
		_ = os.WriteFile(filepath.Join(*root, "evidence", *prop+".json"), b, 0o644)
	}

	fmt.Printf("property %s: %d obligations, %d discharged, %d cover checks, %d known findings, %d violations, %.1fs\n",
		*prop, total, discharged, covers, nKnown, len(viols), time.Since(t0).Seconds())
	if len(viols) == 0 {
		return 0
	}
	for _, v := range viols {
		tail := ""
		if !v.conf {
			tail = " no-failing-input-found"
		}
		fmt.Printf("FAILED-OBLIGATION: %s -- %s\n", v.obl, v.what)
		fmt.Printf("VIOLATION property=%s replay=%s%s\n", *prop, v.replay, tail)
	}
	return 1
}

func nKnownObls(results []*FuncResult, known []KnownFinding, prop string) int {
	n := 0
	for _, r := range results {
		for _, o := range r.Obls {
			if !o.Cover && o.Status != "proved" && matchKnown(known, prop, o.Name) != nil {
				n++
			}
		}
	}
	return n
}

func matchKnown(known []KnownFinding, prop, obl string) *KnownFinding {
	for i := range known {
		k := &known[i]
		if k.Property == prop && k.Status != "fixed" && k.Obligation == obl {
			return k
		}
	}
	// an open finding recorded under another property whose failing obligation is re-generated in this property's
	// scope (shared function): the same finding, not a new violation
	for i := range known {
		k := &known[i]
		if k.Status != "fixed" && k.Obligation == obl {
			return k
		}
	}
	return nil
}

func inProps(ps []string, p string) bool { return containsStr(ps, p) }

func containsStr(xs []string, x string) bool {
	for _, y := range xs {
		if y == x {
			return true
		}
	}
	return false
}

func round2(f float64) float64 { return float64(int(f*100+0.5)) / 100 }
