#!/bin/bash
# Must-fail corpus: every patch is a property-breaking edit; the named property check must report a VIOLATION
# on a scratch copy with the patch applied (and must pass on the unpatched copy).
# usage: selftest/run.sh [pattern]      expectations in selftest/expect.tsv: <patch>\t<property>\t<obligation substring>
set -u
cd "$(dirname "$0")/.."
. ./env.sh
pat="${1:-}"
fail=0
while IFS=$'\t' read -r patch prop want <&3; do
  [ -z "$patch" ] && continue
  case "$patch" in \#*) continue;; esac
  [ -n "$pat" ] && [[ "$patch" != *$pat* ]] && continue
  tmp=$(mktemp -d /tmp/govc-selftest-XXXX)
  rsync -a --exclude .git /repo/ "$tmp/"
  if ! (cd "$tmp" && patch -p1 -s < "/verif/selftest/$patch" >/dev/null 2>&1); then
    if [ -n "${VERIF_SELFTEST_SKIP_UNAPPLICABLE:-}" ]; then echo "SELFTEST $patch: skipped (does not apply to this tree)"; else echo "SELFTEST $patch: patch does not apply"; fail=1; fi
    rm -rf "$tmp"; continue
  fi
  out=$(bin/govc check -repo "$tmp" -prop "$prop" -verif /verif -outdir "/tmp/govc-selftest-out-$$" -noevidence 2>&1 </dev/null)
  if echo "$out" | grep -q "^VIOLATION property=$prop" && echo "$out" | grep -q "FAILED-OBLIGATION: .*$want"; then
    echo "SELFTEST $patch: caught ($prop, $want)"
  else
    echo "SELFTEST $patch: MISSED (wanted $prop / $want)"; echo "$out" | tail -5; fail=1
  fi
  rm -rf "$tmp" "/tmp/govc-selftest-out-$$"
done 3< selftest/expect.tsv
exit $fail
