#!/bin/bash
# Must-fail corpus: every patch is a property-breaking edit; the named property check must report a VIOLATION
# on a scratch copy with the patch applied (and must pass on the unpatched copy).
# usage: selftest/run.sh [pattern]      expectations in selftest/expect.tsv: <patch>\t<property>\t<obligation substring>
# Three patches are checked at a time (scratch copies under /tmp, removed as soon as each is done).
set -u
cd "$(dirname "$0")/.."
. ./env.sh
pat="${1:-}"
res=$(mktemp -d /tmp/govc-selftest-res-XXXX)
one() {
  local patch="$1" prop="$2" want="$3" n="$4"
  local tmp out
  tmp=$(mktemp -d /tmp/govc-selftest-XXXX)
  rsync -a --exclude .git /repo/ "$tmp/"
  if ! (cd "$tmp" && patch -p1 -s < "/verif/selftest/$patch" >/dev/null 2>&1); then
    if [ -n "${VERIF_SELFTEST_SKIP_UNAPPLICABLE:-}" ]; then echo "SELFTEST $patch: skipped (does not apply to this tree)"; else echo "SELFTEST $patch: patch does not apply"; echo fail > "$res/$n.fail"; fi
    rm -rf "$tmp"; return
  fi
  out=$(bin/govc check -repo "$tmp" -prop "$prop" -verif /verif -outdir "$tmp.out" -noevidence -noretry 2>&1 </dev/null)
  if echo "$out" | grep -q "^VIOLATION property=$prop" && echo "$out" | grep -q "FAILED-OBLIGATION: .*$want"; then
    echo "SELFTEST $patch: caught ($prop, $want)"
  else
    echo "SELFTEST $patch: MISSED (wanted $prop / $want)"; echo "$out" | tail -5; echo fail > "$res/$n.fail"
  fi
  rm -rf "$tmp" "$tmp.out"
}
n=0
while IFS=$'\t' read -r patch prop want <&3; do
  [ -z "$patch" ] && continue
  case "$patch" in \#*) continue;; esac
  [ -n "$pat" ] && [[ "$patch" != *$pat* ]] && continue
  n=$((n+1))
  one "$patch" "$prop" "$want" "$n" > "$res/$n.out" 2>&1 </dev/null &
  while [ "$(jobs -rp | wc -l)" -ge 3 ]; do wait -n; done
done 3< selftest/expect.tsv
wait
fail=0
for i in $(seq 1 $n); do cat "$res/$i.out"; [ -f "$res/$i.fail" ] && fail=1; done
rm -rf "$res"
exit $fail
