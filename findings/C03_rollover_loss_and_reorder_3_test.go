package frame

import (
	"context"
	"testing"

	"github.com/mycoria/mycoria/config"
	"github.com/mycoria/mycoria/m"
	"github.com/mycoria/mycoria/state"
)

// c03f3NewSessions returns a fresh, keyed pair of sessions (s1 = sender side,
// s2 = receiver side), independent from the shared test sessions.
func c03f3NewSessions(t *testing.T) (s1, s2 *state.Session) {
	t.Helper()
	ctx := context.Background()
	a1, _, err := m.GeneratePrivacyAddress(ctx)
	if err != nil {
		t.Fatal(err)
	}
	a2, _, err := m.GeneratePrivacyAddress(ctx)
	if err != nil {
		t.Fatal(err)
	}
	st := state.New(&instanceStub{IdentityStub: a1, ConfigStub: &config.Config{}}, nil)
	if err := st.AddRouter(&a1.PublicAddress); err != nil {
		t.Fatal(err)
	}
	if err := st.AddRouter(&a2.PublicAddress); err != nil {
		t.Fatal(err)
	}
	s1, s2 = st.GetSession(a1.IP), st.GetSession(a2.IP)
	k1, t1, err := s1.Encryption().InitKeyClientStart()
	if err != nil {
		t.Fatal(err)
	}
	k2, t2, err := s2.Encryption().InitKeyServer(k1, t1)
	if err != nil {
		t.Fatal(err)
	}
	if err := s1.Encryption().InitKeyClientComplete(k2, t2); err != nil {
		t.Fatal(err)
	}
	return s1, s2
}

func c03f3Sealed(t *testing.T, b *Builder, s1, s2 *state.Session, mt MessageType) *FrameV1 {
	t.Helper()
	f, err := b.NewFrameV1(s1.Address().IP, s2.Address().IP, mt, nil, testData, nil)
	if err != nil {
		t.Fatal(err)
	}
	if err := f.Seal(s1); err != nil {
		t.Fatalf("seal: %s", err)
	}
	return f
}

// A loss burst around the end of the regular sequence wedges the session for good.
// The receiver decides which key a frame is decrypted with from its own receive
// window: the next key is only tried while highest >= 0xFFFFFF00 and the frame has
// seq <= 255. If none of the last 256 frames of the old key arrives (or none of the
// first 255 frames of the new key), every later frame of the sender is decrypted
// with the wrong key and rejected - although each of them is authentic, no
// duplicate, and newer than everything accepted so far.
func TestC03LossBurstAtRolloverWedgesReceiver(t *testing.T) {
	b := NewFrameBuilder()
	s1, s2 := c03f3NewSessions(t)
	e1h := state.EncryptionSessionTestHelper{EncryptionSession: s1.Encryption()}

	// Last frame that arrives before the burst: seq 0xFFFFFEFF.
	e1h.ReglSetOut(0xFFFF_FEFF - 1)
	last := c03f3Sealed(t, b, s1, s2, NetworkTraffic)
	if last.SequenceNum() != 0xFFFF_FEFF {
		t.Fatalf("setup: seq %x", last.SequenceNum())
	}
	if err := last.Unseal(s2); err != nil {
		t.Fatal(err)
	}

	// The sender produces seq 0xFFFFFF00 .. 0xFFFFFFFF (256 frames): all lost.
	for i := 0; i < 256; i++ {
		f := c03f3Sealed(t, b, s1, s2, NetworkTraffic)
		f.ReturnToPool()
	}

	// The sender continues with the rolled over key: seq 1, 2, 3, ...
	// All of these are delivered, in order, exactly once.
	var rejected int
	var firstErr error
	for i := 1; i <= 300; i++ {
		f := c03f3Sealed(t, b, s1, s2, NetworkTraffic)
		if int(f.SequenceNum()) != i {
			t.Fatalf("setup: expected seq %d, got %d", i, f.SequenceNum())
		}
		if err := f.Unseal(s2); err != nil {
			rejected++
			if firstErr == nil {
				firstErr = err
			}
		}
		f.ReturnToPool()
	}
	if rejected > 0 {
		t.Fatalf("C03 violated: %d/300 new, non-duplicate frames rejected after the loss burst (first error: %s)", rejected, firstErr)
	}
}
