package m

import (
	"net/netip"
	"testing"
	"time"
)

// Clean looks up the per-prefix limit with the routing prefix' base address
// (getRoutablePrefixConfig(rte.RoutingPrefix.Addr())), while AddRoute looks
// it up with the destination address. For a router whose country prefix has
// an all-zero country marker (CH: fd17::/18, also GB, IT, AT, JP, CN, CA, ...)
// the base address of the region routing prefix fd17::/16 lies inside the
// router's own prefix, so Clean applies the own-prefix limit (1024) to the
// region prefix (limit 64) and never trims it.
func TestC11CleanUsesWrongLimitForRegionPrefix(t *testing.T) {
	routerIP := netip.MustParseAddr("fd17:1::1")
	marker, err := LookupCountryMarker(routerIP)
	if err != nil {
		t.Fatal(err)
	}
	if marker.Prefix != netip.MustParsePrefix("fd17::/18") {
		t.Fatalf("unexpected country prefix %s", marker.Prefix)
	}
	// Exactly what router.New does.
	tbl := NewRoutingTable(RoutingTableConfig{
		RoutablePrefixes: GetRoutablePrefixesFor(routerIP, marker.Prefix),
		RouterIP:         routerIP,
	})

	peer := netip.MustParseAddr("fd17:1::2")
	if added, err := tbl.AddRoute(RoutingTableEntry{DstIP: peer, NextHop: peer, Source: RouteSourcePeer}); err != nil || !added {
		t.Fatalf("add peer: %v %v", added, err)
	}

	// 100 gossip destinations in the same region (fd17::/16), but outside of
	// the router's own country prefix fd17::/18.
	regionPrefix := netip.MustParsePrefix("fd17::/16")
	var limit int
	for i := 1; i <= 100; i++ {
		dst := netip.AddrFrom16([16]byte{0xfd, 0x17, 0x40, 0, 0, 0, 0, 0, 0, 0, 0, 0, 0, 0, 0, byte(i)})
		rp, ok := tbl.getRoutablePrefixConfig(dst)
		if !ok {
			t.Fatal("dst not routable")
		}
		limit = rp.EntriesPerPrefix
		added, err := tbl.AddRoute(RoutingTableEntry{
			DstIP:   dst,
			NextHop: peer,
			Path: SwitchPath{Hops: []SwitchHop{
				{Router: routerIP, Delay: 10, ForwardLabel: 5},
				{Router: peer, Delay: 10, ForwardLabel: 6, ReturnLabel: 7},
				{Router: dst, ReturnLabel: 8},
			}},
			Source:  RouteSourceGossip,
			Expires: time.Now().Add(time.Hour),
		})
		if err != nil || !added {
			t.Fatalf("add gossip %d: %v %v", i, added, err)
		}
	}
	if limit != 64 {
		t.Fatalf("expected region limit 64, got %d", limit)
	}

	count := func() (n int) {
		for _, rte := range tbl.entries {
			if rte.Source == RouteSourceGossip && rte.RoutingPrefix == regionPrefix {
				n++
			}
		}
		return n
	}
	if n := count(); n != 100 {
		t.Fatalf("expected 100 gossip routes in %s before cleaning, got %d", regionPrefix, n)
	}

	tbl.Clean()

	if n := count(); n > limit {
		t.Fatalf("after Clean, routing prefix %s still holds %d gossip routes, limit is %d", regionPrefix, n, limit)
	}
}
