package router

import (
	"net"
	"net/netip"
	"sync"
	"testing"
	"time"

	"github.com/mycoria/mycoria/api/httpapi"
	"github.com/mycoria/mycoria/api/netstack"
	"github.com/mycoria/mycoria/config"
	"github.com/mycoria/mycoria/frame"
	"github.com/mycoria/mycoria/m"
	"github.com/mycoria/mycoria/mgr"
	"github.com/mycoria/mycoria/peering"
	"github.com/mycoria/mycoria/state"
	"github.com/mycoria/mycoria/switchr"
	"github.com/mycoria/mycoria/tun"
)

// ---- harness ----

type c06f1Instance struct {
	cfg      *config.Config
	id       *m.Address
	builder  *frame.Builder
	st       *state.State
	tunDev   *tun.Device
	sw       *switchr.Switch
	peer     *peering.Peering
	router   *Router
	routerIn chan frame.Frame
}

func (i *c06f1Instance) Version() string               { return "test" }
func (i *c06f1Instance) Config() *config.Config        { return i.cfg }
func (i *c06f1Instance) Identity() *m.Address          { return i.id }
func (i *c06f1Instance) FrameBuilder() *frame.Builder  { return i.builder }
func (i *c06f1Instance) State() *state.State           { return i.st }
func (i *c06f1Instance) NetStack() *netstack.NetStack  { return nil }
func (i *c06f1Instance) API() *httpapi.API             { return nil }
func (i *c06f1Instance) TunDevice() *tun.Device        { return i.tunDev }
func (i *c06f1Instance) Switch() *switchr.Switch       { return i.sw }
func (i *c06f1Instance) Peering() *peering.Peering     { return i.peer }
func (i *c06f1Instance) RoutingTable() *m.RoutingTable { return i.router.Table() }

// c06f1Link is a fake peering link that records all frames leaving the router.
type c06f1Link struct {
	peerIP netip.Addr
	lock   sync.Mutex
	sent   []frame.Frame
}

func (l *c06f1Link) String() string                              { return "c06f1Link" }
func (l *c06f1Link) Peer() netip.Addr                            { return l.peerIP }
func (l *c06f1Link) SwitchLabel() m.SwitchLabel                  { return 1 }
func (l *c06f1Link) GeoMark() string                             { return "" }
func (l *c06f1Link) PeeringURL() *m.PeeringURL                   { return nil }
func (l *c06f1Link) Outgoing() bool                              { return true }
func (l *c06f1Link) Lite() bool                                  { return false }
func (l *c06f1Link) SendPriority(f frame.Frame) error            { return l.Send(f) }
func (l *c06f1Link) LocalAddr() net.Addr                         { return nil }
func (l *c06f1Link) RemoteAddr() net.Addr                        { return nil }
func (l *c06f1Link) Started() time.Time                          { return time.Now() }
func (l *c06f1Link) Uptime() time.Duration                       { return 0 }
func (l *c06f1Link) Latency() uint16                             { return 1 }
func (l *c06f1Link) AddMeasuredLatency(_ time.Duration)          {}
func (l *c06f1Link) BytesIn() uint64                             { return 0 }
func (l *c06f1Link) BytesOut() uint64                            { return 0 }
func (l *c06f1Link) FlowControlIndicator() frame.FlowControlFlag { return 0 }
func (l *c06f1Link) IsClosing() bool                             { return false }
func (l *c06f1Link) Close(_ func())                              {}
func (l *c06f1Link) Send(f frame.Frame) error {
	l.lock.Lock()
	defer l.lock.Unlock()
	l.sent = append(l.sent, f)
	return nil
}

func (l *c06f1Link) takeSent() []frame.Frame {
	l.lock.Lock()
	defer l.lock.Unlock()
	s := l.sent
	l.sent = nil
	return s
}

type c06f1Env struct {
	t      *testing.T
	inst   *c06f1Instance
	r      *Router
	link   *c06f1Link
	local  netip.Addr
	remote netip.Addr

	// remote side: only used to seal frames "as the remote router".
	remoteBuilder *frame.Builder
	remoteSession *state.Session
}

type c06f1StateInst struct {
	id  *m.Address
	cfg *config.Config
}

func (s *c06f1StateInst) Identity() *m.Address   { return s.id }
func (s *c06f1StateInst) Config() *config.Config { return s.cfg }

var (
	c06f1Local  = netip.MustParseAddr("fd1f:1111:2222:3333:4444:5555:6666:7777")
	c06f1Remote = netip.MustParseAddr("fd2e:aaaa:bbbb:cccc:dddd:eeee:ffff:1234")
)

// newC06F1Env builds a router under test with the given (parsed) config, a fake
// tun device, a fake peer link to the remote router and an established
// encryption session with the remote router.
func newC06F1Env(t *testing.T, store config.Store) *c06f1Env {
	t.Helper()

	cfg, err := store.Parse()
	if err != nil {
		t.Fatalf("config rejected by parser: %s", err)
	}

	inst := &c06f1Instance{
		cfg:     cfg,
		id:      &m.Address{PublicAddress: m.PublicAddress{IP: c06f1Local}},
		builder: frame.NewFrameBuilder(),
		tunDev: &tun.Device{
			RecvRaw:   make(chan []byte, 100),
			SendRaw:   make(chan []byte, 100),
			SendFrame: make(chan frame.Frame, 100),
		},
	}
	inst.st = state.New(inst, nil)
	r, err := New(inst, Config{})
	if err != nil {
		t.Fatal(err)
	}
	inst.router = r
	inst.peer = peering.New(inst, r.Input())
	inst.sw = switchr.New(inst, r.Input())

	// Connect remote router as direct peer.
	link := &c06f1Link{peerIP: c06f1Remote}
	if err := inst.peer.AddLink(link); err != nil {
		t.Fatal(err)
	}

	// Make remote router known and set up encryption.
	if err := inst.st.AddRouter(&m.PublicAddress{IP: c06f1Remote}); err != nil {
		t.Fatal(err)
	}
	localSession := inst.st.GetSession(c06f1Remote)
	if localSession == nil {
		t.Fatal("no local session")
	}

	remoteStateInst := &c06f1StateInst{
		id:  &m.Address{PublicAddress: m.PublicAddress{IP: c06f1Remote}},
		cfg: cfg,
	}
	remoteState := state.New(remoteStateInst, nil)
	if err := remoteState.AddRouter(&m.PublicAddress{IP: c06f1Local}); err != nil {
		t.Fatal(err)
	}
	remoteSession := remoteState.GetSession(c06f1Local)
	if remoteSession == nil {
		t.Fatal("no remote session")
	}

	k1, t1, err := remoteSession.Encryption().InitKeyClientStart()
	if err != nil {
		t.Fatal(err)
	}
	k2, t2, err := localSession.Encryption().InitKeyServer(k1, t1)
	if err != nil {
		t.Fatal(err)
	}
	if err := remoteSession.Encryption().InitKeyClientComplete(k2, t2); err != nil {
		t.Fatal(err)
	}
	if !localSession.Encryption().IsSetUp() || !remoteSession.Encryption().IsSetUp() {
		t.Fatal("encryption not set up")
	}

	return &c06f1Env{
		t:             t,
		inst:          inst,
		r:             r,
		link:          link,
		local:         c06f1Local,
		remote:        c06f1Remote,
		remoteBuilder: frame.NewFrameBuilder(),
		remoteSession: remoteSession,
	}
}

// c06f1Packet builds a minimal IPv6 packet.
func c06f1Packet(src, dst netip.Addr, nextHeader uint8, payload []byte) []byte {
	p := make([]byte, 40+len(payload))
	p[0] = 6 << 4
	m.PutUint16(p[4:6], uint16(len(payload)))
	p[6] = nextHeader
	p[7] = 64
	s := src.As16()
	d := dst.As16()
	copy(p[8:24], s[:])
	copy(p[24:40], d[:])
	copy(p[40:], payload)
	return p
}

// c06f1TCP builds a TCP header (SYN) with the given ports.
func c06f1TCP(srcPort, dstPort uint16) []byte {
	h := make([]byte, 20)
	m.PutUint16(h[0:2], srcPort)
	m.PutUint16(h[2:4], dstPort)
	h[12] = 5 << 4
	h[13] = 0x02 // SYN
	return h
}

// c06f1UDP builds a UDP header with the given ports.
func c06f1UDP(srcPort, dstPort uint16) []byte {
	h := make([]byte, 8+4)
	m.PutUint16(h[0:2], srcPort)
	m.PutUint16(h[2:4], dstPort)
	m.PutUint16(h[4:6], uint16(len(h)))
	return h
}

// c06f1Fragment wraps the given upper layer payload into a fragment header.
func c06f1Fragment(innerProto uint8, payload []byte) []byte {
	h := make([]byte, 8+len(payload))
	h[0] = innerProto // next header
	// offset 0, M=1, id=1
	h[3] = 1
	h[7] = 1
	copy(h[8:], payload)
	return h
}

// fromMesh lets the remote router send the given IP packet in a correctly
// sealed traffic frame and reports whether the router under test handed it to
// the local network interface.
func (e *c06f1Env) fromMesh(packet []byte) (delivered bool) {
	e.t.Helper()

	f, err := e.remoteBuilder.NewFrameV1(e.remote, e.local, frame.NetworkTraffic, nil, packet, nil)
	if err != nil {
		e.t.Fatal(err)
	}
	if err := f.Seal(e.remoteSession); err != nil {
		e.t.Fatal(err)
	}

	_ = mgr.New("c06").Do("in", func(w *mgr.WorkerCtx) error {
		if err := e.r.handleFrame(w, f); err != nil {
			e.t.Logf("handleFrame: %s", err)
		}
		return nil
	})

	select {
	case <-e.inst.tunDev.SendFrame:
		return true
	default:
		return false
	}
}

// fromTun submits the given packet as coming from the local network interface
// and reports whether a traffic frame carrying it left the router to the mesh.
func (e *c06f1Env) fromTun(packet []byte) (sent bool) {
	e.t.Helper()

	data := e.inst.builder.GetPooledSlice(len(packet))[:len(packet)]
	copy(data, packet)

	_ = mgr.New("c06").Do("out", func(w *mgr.WorkerCtx) error {
		e.r.handleTunPacket(w, data)
		return nil
	})

	for _, f := range e.link.takeSent() {
		if f.MessageType() == frame.NetworkTraffic {
			sent = true
		}
	}
	return sent
}

func c06f1Store(isolate bool, friends []config.FriendConfig, services []config.ServiceConfig) config.Store {
	return config.Store{
		Router: config.Router{
			Listen:  []string{"tcp:47369"},
			Isolate: isolate,
		},
		FriendConfigs:  friends,
		ServiceConfigs: services,
	}
}

// Baseline sanity checks for the harness: these must pass.
func TestC06F1HarnessBaseline(t *testing.T) {
	// No services: inbound dropped.
	e := newC06F1Env(t, c06f1Store(false, nil, nil))
	if e.fromMesh(c06f1Packet(e.remote, e.local, 6, c06f1TCP(40000, 22))) {
		t.Fatal("baseline: inbound tcp/22 delivered without service")
	}
	if e.fromMesh(c06f1Packet(e.remote, e.local, 44, c06f1Fragment(6, c06f1TCP(40000, 22)))) {
		t.Fatal("baseline: inbound fragment delivered without service")
	}
	// Not isolated: outbound leaves.
	if !e.fromTun(c06f1Packet(e.local, e.remote, 17, c06f1UDP(50000, 53))) {
		t.Fatal("baseline: outbound udp not sent")
	}

	// Public service: inbound delivered.
	e = newC06F1Env(t, c06f1Store(false, nil, []config.ServiceConfig{{Name: "web", URL: "tcp://:80", Public: true}}))
	if !e.fromMesh(c06f1Packet(e.remote, e.local, 6, c06f1TCP(40000, 80))) {
		t.Fatal("baseline: inbound tcp/80 not delivered to public service")
	}
	if e.fromMesh(c06f1Packet(e.remote, e.local, 17, c06f1UDP(40000, 80))) {
		t.Fatal("baseline: inbound udp/80 delivered to tcp service")
	}

	// Isolated, remote not a friend: outbound dropped.
	e = newC06F1Env(t, c06f1Store(true, nil, nil))
	if e.fromTun(c06f1Packet(e.local, e.remote, 17, c06f1UDP(50000, 53))) {
		t.Fatal("baseline: outbound udp sent to non-friend while isolated")
	}
	// Isolated, remote is friend: outbound leaves.
	e = newC06F1Env(t, c06f1Store(true, []config.FriendConfig{{Name: "bob", IP: c06f1Remote.String()}}, nil))
	if !e.fromTun(c06f1Packet(e.local, e.remote, 17, c06f1UDP(50000, 53))) {
		t.Fatal("baseline: outbound udp to friend not sent while isolated")
	}
}

// F1a: default-deny inbound firewall is bypassed by state created by outbound
// traffic. Port-less protocols (here: IPv6 fragment header, 44) are keyed with
// ports 0/0, so ONE outbound fragment opens the host for ALL inbound fragments
// of that router, which may carry TCP/UDP to any port.
func TestC06F1FragmentBypass(t *testing.T) {
	// No services at all: nothing may ever be handed to the tun device.
	e := newC06F1Env(t, c06f1Store(false, nil, nil))

	// Local host sends one fragmented UDP datagram to the remote router.
	if !e.fromTun(c06f1Packet(e.local, e.remote, 44, c06f1Fragment(17, c06f1UDP(50000, 53)))) {
		t.Fatal("setup: outbound fragment was not sent")
	}

	// Remote router now sends a (fragmented) TCP SYN to port 22.
	// No service is configured for protocol 44 or tcp/22.
	if e.fromMesh(c06f1Packet(e.remote, e.local, 44, c06f1Fragment(6, c06f1TCP(40000, 22)))) {
		t.Errorf("VIOLATION: inbound fragment carrying TCP SYN to port 22 was handed to the tun device although the config defines no service at all")
	}
}
