package peering

import (
	"bytes"
	"errors"
	"net"
	"sync"
	"testing"
	"time"

	"github.com/mycoria/mycoria/config"
	"github.com/mycoria/mycoria/frame"
	"github.com/mycoria/mycoria/m"
	"github.com/mycoria/mycoria/state"
)

// c05Conn is an in-memory, one-directional "wire" the test (= the attacker on
// the wire) has full control over.
// Write() records every written chunk, Read() returns what was fed with feed().
type c05Conn struct {
	lock    sync.Mutex
	cond    *sync.Cond
	inbox   []byte
	written [][]byte
	closed  bool
}

func newC05Conn() *c05Conn {
	c := &c05Conn{}
	c.cond = sync.NewCond(&c.lock)
	return c
}

func (c *c05Conn) feed(data []byte) {
	c.lock.Lock()
	defer c.lock.Unlock()
	c.inbox = append(c.inbox, data...)
	c.cond.Broadcast()
}

func (c *c05Conn) Read(b []byte) (int, error) {
	c.lock.Lock()
	defer c.lock.Unlock()
	for len(c.inbox) == 0 && !c.closed {
		c.cond.Wait()
	}
	if len(c.inbox) == 0 {
		return 0, errors.New("c05Conn closed")
	}
	n := copy(b, c.inbox)
	c.inbox = c.inbox[n:]
	return n, nil
}

func (c *c05Conn) Write(b []byte) (int, error) {
	c.lock.Lock()
	defer c.lock.Unlock()
	if c.closed {
		return 0, errors.New("c05Conn closed")
	}
	c.written = append(c.written, bytes.Clone(b))
	return len(b), nil
}

// takeWritten returns everything written since the last call as one blob.
func (c *c05Conn) takeWritten() []byte {
	c.lock.Lock()
	defer c.lock.Unlock()
	out := bytes.Join(c.written, nil)
	c.written = nil
	return out
}

func (c *c05Conn) Close() error {
	c.lock.Lock()
	defer c.lock.Unlock()
	c.closed = true
	c.cond.Broadcast()
	return nil
}

func (c *c05Conn) LocalAddr() net.Addr                { return &net.UnixAddr{Name: "c05-local"} }
func (c *c05Conn) RemoteAddr() net.Addr               { return &net.UnixAddr{Name: "c05-remote"} }
func (c *c05Conn) SetDeadline(_ time.Time) error      { return nil }
func (c *c05Conn) SetReadDeadline(_ time.Time) error  { return nil }
func (c *c05Conn) SetWriteDeadline(_ time.Time) error { return nil }

// c05Setup runs the real peering handshake between two routers and returns a
// sending link (A -> wire) and a receiving link (wire -> B) that use the
// derived link layer encryption sessions, exactly as handleSetup() would set
// them up. The receiving link runs the real reader worker.
func c05Setup(t *testing.T) (
	txLink *LinkBase, txWire *c05Conn, encA *state.EncryptionSession,
	rxLink *LinkBase, rxWire *c05Conn, delivered chan frame.Frame,
	builderA *frame.Builder,
) {
	t.Helper()

	cA := config.MakeTestConfig(config.Store{Router: config.Router{Universe: "test", UniverseSecret: "password"}})
	cB := config.MakeTestConfig(config.Store{Router: config.Router{Universe: "test", UniverseSecret: "password"}})
	instA := getTestInstance(t, cA)
	instB := getTestInstance(t, cB)
	delivered = make(chan frame.Frame, 1000)
	peeringA := New(instA, make(chan frame.Frame, 1000))
	peeringB := New(instB, delivered)

	// Handshake (same as TestPeeringInit).
	stateA, msgFromA, err := peeringA.createPeeringRequest(true)
	if err != nil {
		t.Fatal(err)
	}
	stateB, msgFromB, err := peeringB.createPeeringRequest(false)
	if err != nil {
		t.Fatal(err)
	}
	for {
		newMsgFromA, err := stateA.handle(msgFromB)
		if err != nil {
			t.Fatal(err)
		}
		newMsgFromB, err := stateB.handle(msgFromA)
		if err != nil {
			t.Fatal(err)
		}
		msgFromB = newMsgFromB
		msgFromA = newMsgFromA
		if msgFromA == nil && msgFromB == nil {
			break
		}
	}
	encA, err = stateA.finalize()
	if err != nil {
		t.Fatal(err)
	}
	encB, err := stateB.finalize()
	if err != nil {
		t.Fatal(err)
	}

	// Links: the link is up, encryption exists.
	txWire = newC05Conn()
	rxWire = newC05Conn()
	txLink = newLinkBase(txWire, &m.PeeringURL{Protocol: "pipe"}, true, peeringA)
	txLink.encSession = encA
	rxLink = newLinkBase(rxWire, &m.PeeringURL{Protocol: "pipe"}, false, peeringB)
	rxLink.encSession = encB

	// Start the real reader on the receiving side.
	peeringB.mgr.Go("link reader", rxLink.reader)
	t.Cleanup(func() {
		peeringB.mgr.Cancel()
		_ = rxWire.Close()
	})

	return txLink, txWire, encA, rxLink, rxWire, delivered, instA.FrameBuilder()
}

// c05Send hands a frame with the given payload to the sending link and returns
// the frame bytes as handed to the link and the bytes that were put on the wire.
func c05Send(t *testing.T, b *frame.Builder, txLink *LinkBase, txWire *c05Conn, payload []byte) (frameBytes, wireBytes []byte) {
	t.Helper()

	f, err := b.NewFrameV1(m.RouterAddress, m.RouterAddress, frame.NetworkTraffic, nil, payload, nil)
	if err != nil {
		t.Fatal(err)
	}
	raw, err := f.FrameDataWithMargins(0, 0)
	if err != nil {
		t.Fatal(err)
	}
	frameBytes = bytes.Clone(raw)
	if err := txLink.writeFrame(f); err != nil {
		t.Fatalf("write frame: %s", err)
	}
	return frameBytes, txWire.takeWritten()
}

// c05Expect waits for the delivery of exactly the given frame.
func c05Expect(t *testing.T, delivered chan frame.Frame, want []byte, what string) bool {
	t.Helper()

	select {
	case f := <-delivered:
		got, err := f.FrameDataWithMargins(0, 0)
		if err != nil {
			t.Fatal(err)
		}
		if !bytes.Equal(got, want) {
			t.Errorf("%s: delivered frame differs from sent frame", what)
			return false
		}
		return true
	case <-time.After(500 * time.Millisecond):
		return false
	}
}

// c05Bogus returns a well-formed (length prefix is correct), but unauthenticated
// link frame with the given sequence number, as an attacker without any key
// would inject it.
func c05Bogus(seqNum uint32) []byte {
	bogus := make([]byte, FrameOffset+80+FrameOverhead)
	for i := range bogus {
		bogus[i] = 0xA5
	}
	lf := LinkFrame(bogus)
	lf.SetLength(uint16(len(bogus)))
	lf.SetVersion(1)
	lf.SetRecvRate(100)
	lf.SetSequenceNum(seqNum)
	lf.SetSequenceAck(0)
	return bogus
}

// TestC05InjectedFrameKillsIntactFrames shows that a single injected,
// unauthenticated frame makes the receiver drop all following intact frames
// while the link stays open, when the injection happens shortly before the
// sequence number wrap-around:
// LinkFrame.Unseal() calls EncryptionSession.In(seqNum) with the not yet
// authenticated sequence number, and In() irreversibly rolls over the incoming
// key (and resets the highest seen sequence number) before the MAC is checked.
func TestC05InjectedFrameKillsIntactFrames(t *testing.T) {
	txLink, txWire, encA, rxLink, rxWire, delivered, b := c05Setup(t)

	// Control: at a low sequence number an injected bogus frame is harmless:
	// the next intact frame is delivered.
	fb, wb := c05Send(t, b, txLink, txWire, []byte("frame before"))
	rxWire.feed(wb)
	if !c05Expect(t, delivered, fb, "first frame") {
		t.Fatal("setup broken: first frame not delivered")
	}
	rxWire.feed(c05Bogus(1))
	fb, wb = c05Send(t, b, txLink, txWire, []byte("frame after harmless injection"))
	rxWire.feed(wb)
	if !c05Expect(t, delivered, fb, "control frame") {
		t.Fatal("setup broken: control frame after injection at low sequence number not delivered")
	}

	// The link has been in use for a long time: the sender is 16 frames before
	// the sequence number wrap-around (shortcut for sending 2^32-16 frames).
	(&state.EncryptionSessionTestHelper{EncryptionSession: encA}).ReglSetOut(0xFFFF_FFEF)
	fb, wb = c05Send(t, b, txLink, txWire, []byte("frame with seq 0xFFFFFFF0"))
	rxWire.feed(wb)
	if !c05Expect(t, delivered, fb, "frame 0xFFFFFFF0") {
		t.Fatal("setup broken: frame with seq 0xFFFFFFF0 not delivered")
	}

	// Attacker injects ONE bogus frame (no key needed) with a low sequence number.
	rxWire.feed(c05Bogus(1))

	// The sender now sends 10 more frames (seq 0xFFFFFFF1 - 0xFFFFFFFA),
	// the attacker does not touch them.
	lost := 0
	for i := 0; i < 10; i++ {
		fb, wb = c05Send(t, b, txLink, txWire, []byte("intact frame after the injection"))
		rxWire.feed(wb)
		if !c05Expect(t, delivered, fb, "intact frame") {
			lost++
		}
	}

	if lost > 0 && !rxLink.IsClosing() {
		t.Errorf(
			"%d of 10 intact frames sent after ONE injected bogus frame were not delivered, and the link was not closed",
			lost,
		)
	}
}

// TestC05ReplayedOldFrameKillsIntactFrames is the same as above, but the
// attacker only duplicates a frame it has seen on the wire earlier (the very
// first link frame, seq 1) instead of forging one.
func TestC05ReplayedOldFrameKillsIntactFrames(t *testing.T) {
	txLink, txWire, encA, rxLink, rxWire, delivered, b := c05Setup(t)

	// First frame on the link, recorded by the attacker.
	fb, firstWire := c05Send(t, b, txLink, txWire, []byte("first frame"))
	rxWire.feed(firstWire)
	if !c05Expect(t, delivered, fb, "first frame") {
		t.Fatal("setup broken: first frame not delivered")
	}

	// Sender is 16 frames before the sequence number wrap-around.
	(&state.EncryptionSessionTestHelper{EncryptionSession: encA}).ReglSetOut(0xFFFF_FFEF)
	fb, wb := c05Send(t, b, txLink, txWire, []byte("frame with seq 0xFFFFFFF0"))
	rxWire.feed(wb)
	if !c05Expect(t, delivered, fb, "frame 0xFFFFFFF0") {
		t.Fatal("setup broken: frame with seq 0xFFFFFFF0 not delivered")
	}

	// Attacker duplicates the recorded first frame.
	rxWire.feed(firstWire)
	select {
	case <-delivered:
		t.Fatal("duplicate was delivered")
	case <-time.After(200 * time.Millisecond):
	}

	// Intact frames that follow.
	lost := 0
	for i := 0; i < 10; i++ {
		fb, wb = c05Send(t, b, txLink, txWire, []byte("intact frame after the duplicate"))
		rxWire.feed(wb)
		if !c05Expect(t, delivered, fb, "intact frame") {
			lost++
		}
	}

	if lost > 0 && !rxLink.IsClosing() {
		t.Errorf(
			"%d of 10 intact frames sent after ONE duplicated old frame were not delivered, and the link was not closed",
			lost,
		)
	}
}
