package mycoria

import (
	"context"
	"fmt"
	"net"
	"net/netip"
	"testing"
	"time"

	"github.com/mycoria/mycoria/config"
	"github.com/mycoria/mycoria/m"
)

// TestC20ListenFailurePanicsListenManager shows that the peering "listen
// manager" worker panics with a nil pointer dereference as soon as a single
// configured listener can not be started: checkListen logs ln.ID() of the nil
// listener returned together with the error. The panic aborts checkListen, so
// all listeners configured after the failing one are never started, and the
// restarted worker panics again on every retry.
//
// The configuration below is accepted by config.Store.Parse(): peering URLs
// are only checked syntactically, and "kcp" is even a scheme the URL parser
// knows a default port for, but only "tcp" is registered as a protocol.
func TestC20ListenFailurePanicsListenManager(t *testing.T) {
	// Find two free loopback ports.
	freePort := func() int {
		probe, err := net.Listen("tcp", "127.0.0.1:0")
		if err != nil {
			t.Fatal(err)
		}
		defer probe.Close() //nolint:errcheck
		return probe.Addr().(*net.TCPAddr).Port
	}
	portKCP, portTCP := freePort(), freePort()

	// Build a valid relay-only configuration.
	prefix, err := m.GetCountryPrefix("AT")
	if err != nil {
		t.Fatal(err)
	}
	id, _, err := m.GenerateRoutableAddress(context.Background(), []netip.Prefix{prefix}, nil, 0)
	if err != nil {
		t.Fatal(err)
	}
	c, err := config.Store{
		Router: config.Router{
			Address:        id.Store(),
			Universe:       "test",
			UniverseSecret: "password",
			Listen: []string{
				fmt.Sprintf("kcp://127.0.0.1:%d", portKCP),
				fmt.Sprintf("tcp://127.0.0.1:%d", portTCP),
			},
		},
		System: config.System{DisableTun: true},
	}.Parse()
	if err != nil {
		t.Fatalf("config is not valid: %s", err)
	}

	inst, err := New("test", c)
	if err != nil {
		t.Fatal(err)
	}
	if err := inst.Start(); err != nil {
		t.Fatal(err)
	}
	defer inst.Stop()

	// The TCP listener must come up, regardless of the other listener failing.
	var conn net.Conn
	for i := 0; i < 100; i++ { // 5 seconds, includes the first worker restart.
		conn, err = net.Dial("tcp", fmt.Sprintf("127.0.0.1:%d", portTCP))
		if err == nil {
			_ = conn.Close()
			return
		}
		time.Sleep(50 * time.Millisecond)
	}
	t.Fatalf(
		"tcp listener never came up (%s): listen manager worker panicked in checkListen, see PANIC output on stderr",
		err,
	)
}
