package frame

import (
	"context"
	"testing"

	"github.com/mycoria/mycoria/config"
	"github.com/mycoria/mycoria/m"
	"github.com/mycoria/mycoria/state"
)

// c15f1Sessions returns a fresh sender (s1) / receiver (s2) session pair with
// completed key exchange: s1.out == s2.in.
func c15f1Sessions(t *testing.T) (s1, s2 *state.Session) {
	t.Helper()

	ctx := context.Background()
	a1, _, err := m.GeneratePrivacyAddress(ctx)
	if err != nil {
		t.Fatal(err)
	}
	a2, _, err := m.GeneratePrivacyAddress(ctx)
	if err != nil {
		t.Fatal(err)
	}
	st := state.New(&instanceStub{IdentityStub: a1, ConfigStub: &config.Config{}}, nil)
	if err := st.AddRouter(&a1.PublicAddress); err != nil {
		t.Fatal(err)
	}
	if err := st.AddRouter(&a2.PublicAddress); err != nil {
		t.Fatal(err)
	}
	s1, s2 = st.GetSession(a1.IP), st.GetSession(a2.IP)
	if s1 == nil || s2 == nil {
		t.Fatal("failed to get sessions")
	}

	e1, e2 := s1.Encryption(), s2.Encryption()
	kxKey1, kxType1, err := e1.InitKeyClientStart()
	if err != nil {
		t.Fatal(err)
	}
	kxKey2, kxType2, err := e2.InitKeyServer(kxKey1, kxType1)
	if err != nil {
		t.Fatal(err)
	}
	if err := e1.InitKeyClientComplete(kxKey2, kxType2); err != nil {
		t.Fatal(err)
	}
	return s1, s2
}

func c15f1Seal(t *testing.T, b *Builder, s1, s2 *state.Session, mt MessageType) *FrameV1 {
	t.Helper()
	f, err := b.NewFrameV1(s1.Address().IP, s2.Address().IP, mt, nil, testData, nil)
	if err != nil {
		t.Fatal(err)
	}
	if err := f.Seal(s1); err != nil {
		t.Fatalf("seal %s: %s", mt, err)
	}
	return f
}

// TestC15PrioFrameOvertakesRolloverFrame:
// The regular sequence wraps at the sender. The regular frame that carries the
// wrap (seq 1, new key) is sealed first, a priority frame (seq 1 of the
// restarted priority sequence, new key) is sealed right after it. The two
// frames swap places on the way (displacement 1, or simply two concurrent
// senders whose frames leave in the other order). The receiver must unseal both.
func TestC15PrioFrameOvertakesRolloverFrame(t *testing.T) {
	run := func(t *testing.T, swap bool) {
		t.Helper()
		b := NewFrameBuilder()
		s1, s2 := c15f1Sessions(t)
		e1h := state.EncryptionSessionTestHelper{EncryptionSession: s1.Encryption()}

		// Three regular frames before the wrap.
		e1h.ReglSetOut(0xFFFF_FFFF - 3)

		// Before the wrap: everything in order, regular and priority mixed.
		for i, mt := range []MessageType{NetworkTraffic, SessionCtrl, NetworkTraffic, RouterCtrl, NetworkTraffic} {
			f := c15f1Seal(t, b, s1, s2, mt)
			if err := f.Unseal(s2); err != nil {
				t.Fatalf("pre-wrap frame %d (%s, seq %#x) failed to unseal: %s", i, mt, f.SequenceNum(), err)
			}
		}

		oldKey := string(e1h.OutKey())
		regl := c15f1Seal(t, b, s1, s2, NetworkTraffic) // wraps: seq 1, new key
		if regl.SequenceNum() != 1 || string(e1h.OutKey()) == oldKey {
			t.Fatalf("setup: expected wrap, got seq %#x", regl.SequenceNum())
		}
		prio := c15f1Seal(t, b, s1, s2, SessionCtrl) // restarted prio sequence: seq 1, new key
		if prio.SequenceNum() != 1 {
			t.Fatalf("setup: expected restarted prio seq 1, got %#x", prio.SequenceNum())
		}

		order := []*FrameV1{regl, prio}
		if swap {
			order = []*FrameV1{prio, regl}
		}
		for _, f := range order {
			if err := f.Unseal(s2); err != nil {
				t.Errorf("%s frame seq %d sealed right after the wrap failed to unseal at the receiver: %s",
					f.MessageType(), f.SequenceNum(), err)
			}
		}
	}

	t.Run("in order (control)", func(t *testing.T) { run(t, false) })
	t.Run("prio frame displaced by one", func(t *testing.T) { run(t, true) })
}
