package state

import "testing"

func verifPair(t *testing.T) (*EncryptionSession, *EncryptionSession) {
	t.Helper()
	a, b := NewEncryptionSession(), NewEncryptionSession()
	k, kt, err := a.InitKeyClientStart()
	if err != nil {
		t.Fatal(err)
	}
	k2, kt2, err := b.InitKeyServer(k, kt)
	if err != nil {
		t.Fatal(err)
	}
	if err := a.InitKeyClientComplete(k2, kt2); err != nil {
		t.Fatal(err)
	}
	return a, b
}

// A: an unauthenticated low priority sequence number near the wrap resets the priority window although the key stays.
func TestWrapA_PrioWindowResetWithoutKeyChange(t *testing.T) {
	_, b := verifPair(t)
	if err := b.Check(0xFFFFFF80, true); err != nil {
		t.Fatal(err)
	}
	key := string(b.inKey)
	if _, err := b.In(5, true); err == nil {
		t.Fatal("expected refusal")
	}
	if string(b.inKey) != key {
		t.Fatal("key changed")
	}
	if err := b.Check(0xFFFFFF80, true); err == nil {
		t.Fatal("priority frame 0xFFFFFF80 accepted a second time under the same key")
	}
}

// B: the local out-key rollover resets the priority RECEIVE window although the in key stays.
func TestWrapB_OutRolloverResetsReceiveWindow(t *testing.T) {
	_, b := verifPair(t)
	if err := b.Check(100, true); err != nil {
		t.Fatal(err)
	}
	key := string(b.inKey)
	b.reglSeqHandler.outSeq.Store(0xFFFFFFFF)
	if _, _, _, _, err := b.Out(false); err != nil {
		t.Fatal(err)
	}
	if string(b.inKey) != key {
		t.Fatal("in key changed")
	}
	if err := b.Check(100, true); err == nil {
		t.Fatal("priority frame 100 accepted a second time under the same in key")
	}
}

// C: an in-key rollover resets the priority OUTGOING counter although the out key stays: sequence numbers repeat.
func TestWrapC_InRolloverResetsOutgoingCounter(t *testing.T) {
	_, b := verifPair(t)
	s1, _, _, _, err := b.Out(true)
	if err != nil {
		t.Fatal(err)
	}
	key := string(b.outKey)
	if err := b.Check(0xFFFFFF80, false); err != nil {
		t.Fatal(err)
	}
	if _, err := b.In(1, false); err != nil {
		t.Fatal(err)
	}
	s2, _, _, _, err := b.Out(true)
	if err != nil {
		t.Fatal(err)
	}
	if string(b.outKey) == key && s2 == s1 {
		t.Fatalf("priority sequence number %d issued twice under the same out key", s1)
	}
}
