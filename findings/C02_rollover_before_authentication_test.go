package frame

import (
	"bytes"
	"context"
	"testing"

	"github.com/mycoria/mycoria/config"
	"github.com/mycoria/mycoria/m"
	"github.com/mycoria/mycoria/state"
)

// huntC02f1Inst is a minimal instance for state.New.
type huntC02f1Inst struct {
	id  *m.Address
	cfg *config.Config
}

func (i *huntC02f1Inst) Identity() *m.Address   { return i.id }
func (i *huntC02f1Inst) Config() *config.Config { return i.cfg }

// huntC02f1Pair returns the session router A holds for B (sAB) and the session
// router B holds for A (sBA), with encryption keys exchanged.
func huntC02f1Pair(t *testing.T) (sAB, sBA *state.Session) {
	t.Helper()
	ctx := context.Background()
	a, _, err := m.GeneratePrivacyAddress(ctx)
	if err != nil {
		t.Fatal(err)
	}
	b, _, err := m.GeneratePrivacyAddress(ctx)
	if err != nil {
		t.Fatal(err)
	}
	stA := state.New(&huntC02f1Inst{id: a, cfg: &config.Config{}}, nil)
	stB := state.New(&huntC02f1Inst{id: b, cfg: &config.Config{}}, nil)
	if err := stA.AddRouter(&b.PublicAddress); err != nil {
		t.Fatal(err)
	}
	if err := stB.AddRouter(&a.PublicAddress); err != nil {
		t.Fatal(err)
	}
	sAB = stA.GetSession(b.IP)
	sBA = stB.GetSession(a.IP)
	if sAB == nil || sBA == nil {
		t.Fatal("no session")
	}
	k1, t1, err := sAB.Encryption().InitKeyClientStart()
	if err != nil {
		t.Fatal(err)
	}
	k2, t2, err := sBA.Encryption().InitKeyServer(k1, t1)
	if err != nil {
		t.Fatal(err)
	}
	if err := sAB.Encryption().InitKeyClientComplete(k2, t2); err != nil {
		t.Fatal(err)
	}
	return sAB, sBA
}

// huntC02f1Seal builds and seals a frame at A and returns the bytes on the wire.
func huntC02f1Seal(t *testing.T, bld *Builder, sAB, sBA *state.Session, mt MessageType, payload []byte) []byte {
	t.Helper()
	// sBA.For() is A's address, sAB.For() is B's address.
	f, err := bld.NewFrameV1(sBA.For(), sAB.For(), mt, []byte{1, 2, 3}, payload, nil)
	if err != nil {
		t.Fatal(err)
	}
	if err := f.Seal(sAB); err != nil {
		t.Fatalf("seal %s at A: %s", mt, err)
	}
	wire := append([]byte(nil), f.data...)
	f.ReturnToPool()
	return wire
}

// huntC02f1Unseal parses and unseals wire bytes at B.
func huntC02f1Unseal(bld *Builder, sBA *state.Session, wire []byte) ([]byte, error) {
	f, err := bld.ParseFrame(append([]byte(nil), wire...), nil, 0)
	if err != nil {
		return nil, err
	}
	if err := f.Unseal(sBA); err != nil {
		return nil, err
	}
	return append([]byte(nil), f.MessageData()...), nil
}

// The history: B's regular receive window is near the end of the sequence space
// (highest >= 0xFFFF_FF00), which is reached by ordinary traffic. A genuine
// priority frame (SessionCtrl, priority sequence 1) is then modified in ONE BIT of
// the (protected) message type byte: SessionCtrl(16) -> SessionData(17).
// Unseal correctly refuses the modified frame, but EncryptionSession.In has
// already rolled over B's incoming key (and reset the priority window) based on
// the unauthenticated sequence number, before the AEAD check. From then on no
// genuine frame sealed by A for B unseals at B anymore.
func TestHuntC02TamperedFrameRollsReceiverKeyBeforeAuth(t *testing.T) {
	payload := []byte("payload that must round trip")

	run := func(t *testing.T, deliverTampered bool) {
		bld := NewFrameBuilder()
		sAB, sBA := huntC02f1Pair(t)
		hA := state.EncryptionSessionTestHelper{EncryptionSession: sAB.Encryption()}
		hB := state.EncryptionSessionTestHelper{EncryptionSession: sBA.Encryption()}

		// Ordinary traffic has brought A's regular sequence to 0xFFFF_FF00.
		hA.ReglSetOut(0xFFFF_FF00 - 1)
		w := huntC02f1Seal(t, bld, sAB, sBA, NetworkTraffic, payload)
		if got, err := huntC02f1Unseal(bld, sBA, w); err != nil || !bytes.Equal(got, payload) {
			t.Fatalf("setup frame did not round trip: %v", err)
		}
		keyBefore := append([]byte(nil), hB.InKey()...)

		// A genuine priority frame from A to B.
		prio := huntC02f1Seal(t, bld, sAB, sBA, SessionCtrl, payload)

		if deliverTampered {
			// Flip one bit of the message type byte: SessionCtrl(16) -> SessionData(17).
			tampered := append([]byte(nil), prio...)
			tampered[4] ^= 0x01
			if _, err := huntC02f1Unseal(bld, sBA, tampered); err == nil {
				t.Fatal("tampered frame was accepted")
			} else {
				t.Logf("tampered frame refused as expected: %s", err)
			}
			if !bytes.Equal(keyBefore, hB.InKey()) {
				t.Errorf("B's incoming key was rolled over by a frame that failed authentication")
			}
		}

		// The untouched priority frame must still unseal at B.
		if got, err := huntC02f1Unseal(bld, sBA, prio); err != nil {
			t.Errorf("genuine SessionCtrl frame sealed by A for B does not unseal at B: %s", err)
		} else if !bytes.Equal(got, payload) {
			t.Errorf("payload mismatch")
		}
		// And so must the following regular frames.
		for i := 0; i < 3; i++ {
			w := huntC02f1Seal(t, bld, sAB, sBA, NetworkTraffic, payload)
			if got, err := huntC02f1Unseal(bld, sBA, w); err != nil {
				t.Errorf("genuine NetworkTraffic frame #%d sealed by A for B does not unseal at B: %s", i, err)
			} else if !bytes.Equal(got, payload) {
				t.Errorf("payload mismatch")
			}
		}
	}

	t.Run("control_without_tampered_frame", func(t *testing.T) { run(t, false) })
	t.Run("after_tampered_frame", func(t *testing.T) { run(t, true) })
}
