package frame

import (
	"context"
	"sync"
	"testing"

	"github.com/mycoria/mycoria/config"
	"github.com/mycoria/mycoria/m"
	"github.com/mycoria/mycoria/state"
)

// c15f2Sessions returns a fresh sender (s1) / receiver (s2) session pair.
func c15f2Sessions(t *testing.T) (s1, s2 *state.Session) {
	t.Helper()

	ctx := context.Background()
	a1, _, err := m.GeneratePrivacyAddress(ctx)
	if err != nil {
		t.Fatal(err)
	}
	a2, _, err := m.GeneratePrivacyAddress(ctx)
	if err != nil {
		t.Fatal(err)
	}
	st := state.New(&instanceStub{IdentityStub: a1, ConfigStub: &config.Config{}}, nil)
	if err := st.AddRouter(&a1.PublicAddress); err != nil {
		t.Fatal(err)
	}
	if err := st.AddRouter(&a2.PublicAddress); err != nil {
		t.Fatal(err)
	}
	s1, s2 = st.GetSession(a1.IP), st.GetSession(a2.IP)
	if s1 == nil || s2 == nil {
		t.Fatal("failed to get sessions")
	}
	c15f2Rekey(t, s1, s2)
	return s1, s2
}

// c15f2Rekey installs fresh encryption sessions (s1.out == s2.in).
func c15f2Rekey(t *testing.T, s1, s2 *state.Session) {
	t.Helper()
	e1, e2 := state.NewEncryptionSession(), state.NewEncryptionSession()
	kxKey1, kxType1, err := e1.InitKeyClientStart()
	if err != nil {
		t.Fatal(err)
	}
	kxKey2, kxType2, err := e2.InitKeyServer(kxKey1, kxType1)
	if err != nil {
		t.Fatal(err)
	}
	if err := e1.InitKeyClientComplete(kxKey2, kxType2); err != nil {
		t.Fatal(err)
	}
	s1.SetEncryptionSession(e1)
	s2.SetEncryptionSession(e2)
}

func c15f2Seal(t *testing.T, b *Builder, s1, s2 *state.Session, mt MessageType) *FrameV1 {
	t.Helper()
	f, err := b.NewFrameV1(s1.Address().IP, s2.Address().IP, mt, nil, testData, nil)
	if err != nil {
		t.Fatal(err)
	}
	if err := f.Seal(s1); err != nil {
		t.Fatalf("seal %s: %s", mt, err)
	}
	return f
}

// c15f2UnsealBegin executes exactly the statements of FrameV1.Unseal for an
// encrypted frame up to and including the decryption and returns the rest
// (the Check call) as a closure. This lets the test place a second Unseal of
// another router worker between the two halves - a point at which the real
// Unseal holds no lock at all.
func c15f2UnsealBegin(f *FrameV1, s *state.Session) (finish func() error, err error) {
	prio := f.MessageType().Class() == MessageClassPriorityEncrypted
	done := f.putFieldsIntoCryptoState()
	seqNum := f.SequenceNum()
	c, err := s.Encryption().In(seqNum, prio)
	if err != nil {
		done()
		return nil, err
	}
	if err := f.decryptFrame(c); err != nil {
		done()
		return nil, err
	}
	return func() error {
		defer done()
		return s.Encryption().Check(seqNum, prio)
	}, nil
}

// TestC15ConcurrentUnsealAcrossRolloverKillsSession (deterministic):
// router.Start runs runtime.NumCPU() frameHandler workers that all call
// Unseal on the same session. Worker W1 is unsealing the last frame of the old
// key (seq 0xFFFFFFFF) and has decrypted it, but not yet called Check. Worker
// W2 unseals the first frame of the new key (seq 1) completely: the in key
// rolls over and the receive window restarts. W1 now runs Check(0xFFFFFFFF):
// the frame authenticated under the OLD key is recorded in the window of the
// NEW key, highest jumps to 0xFFFFFFFF. From here on every frame of the new key
// with seq <= 255 is taken for another rollover (decrypted with the
// next-next key -> authentication failure) and every frame above is
// "delayed": the session never recovers.
func TestC15ConcurrentUnsealAcrossRolloverKillsSession(t *testing.T) {
	b := NewFrameBuilder()
	s1, s2 := c15f2Sessions(t)
	e1h := state.EncryptionSessionTestHelper{EncryptionSession: s1.Encryption()}
	e2h := state.EncryptionSessionTestHelper{EncryptionSession: s2.Encryption()}
	e1h.ReglSetOut(0xFFFF_FFFF - 3)

	// In order up to 0xFFFFFFFE.
	for range 2 {
		f := c15f2Seal(t, b, s1, s2, NetworkTraffic)
		if err := f.Unseal(s2); err != nil {
			t.Fatalf("pre-wrap frame seq %#x: %s", f.SequenceNum(), err)
		}
	}

	last := c15f2Seal(t, b, s1, s2, NetworkTraffic)  // seq 0xFFFFFFFF, old key
	first := c15f2Seal(t, b, s1, s2, NetworkTraffic) // seq 1, new key
	if last.SequenceNum() != 0xFFFF_FFFF || first.SequenceNum() != 1 {
		t.Fatalf("setup: seqs %#x %#x", last.SequenceNum(), first.SequenceNum())
	}

	// W1: In + decrypt of the last old-key frame.
	w1Finish, err := c15f2UnsealBegin(last, s2)
	if err != nil {
		t.Fatalf("W1 begin: %s", err)
	}
	// W2: complete Unseal of the first new-key frame.
	if err := first.Unseal(s2); err != nil {
		t.Fatalf("W2 unseal of first new-key frame: %s", err)
	}
	// W1: Check.
	if err := w1Finish(); err != nil {
		t.Logf("W1 finish: %s", err)
	}

	if string(e1h.OutKey()) != string(e2h.InKey()) {
		t.Errorf("sender out key and receiver in key differ")
	}

	// Everything sealed after the wrap, delivered in order, must unseal.
	failed := 0
	var firstErr error
	var firstErrSeq, lastErrSeq uint32
	var lastErr error
	for range 600 {
		f := c15f2Seal(t, b, s1, s2, NetworkTraffic)
		if err := f.Unseal(s2); err != nil {
			failed++
			if firstErr == nil {
				firstErr, firstErrSeq = err, f.SequenceNum()
			}
			lastErr, lastErrSeq = err, f.SequenceNum()
		}
	}
	if failed > 0 {
		highest, _ := e2h.ReglSeq().Ack()
		t.Fatalf("%d of 600 in-order frames sealed after the wrap failed to unseal "+
			"(first: seq %d: %v; last: seq %d: %v); receiver regular highest=%#x",
			failed, firstErrSeq, firstErr, lastErrSeq, lastErr, highest)
	}
}

// TestC15ConcurrentUnsealAcrossRolloverStress does the same with two real
// goroutines calling the unmodified Unseal (timing dependent, supplementary).
func TestC15ConcurrentUnsealAcrossRolloverStress(t *testing.T) {
	b := NewFrameBuilder()
	s1, s2 := c15f2Sessions(t)

	const trials = 3000
	broken := 0
	for range trials {
		c15f2Rekey(t, s1, s2)
		e1h := state.EncryptionSessionTestHelper{EncryptionSession: s1.Encryption()}
		e1h.ReglSetOut(0xFFFF_FFFF - 2)

		pre := c15f2Seal(t, b, s1, s2, NetworkTraffic)
		if err := pre.Unseal(s2); err != nil {
			t.Fatal(err)
		}
		last := c15f2Seal(t, b, s1, s2, NetworkTraffic)  // 0xFFFFFFFF, old key
		first := c15f2Seal(t, b, s1, s2, NetworkTraffic) // 1, new key

		var wg sync.WaitGroup
		start := make(chan struct{})
		for _, f := range []*FrameV1{last, first} {
			wg.Add(1)
			go func() {
				defer wg.Done()
				<-start
				_ = f.Unseal(s2) // losing the old-key frame is tolerated
			}()
		}
		close(start)
		wg.Wait()

		next := c15f2Seal(t, b, s1, s2, NetworkTraffic) // 2, new key
		if err := next.Unseal(s2); err != nil {
			broken++
		}
		pre.ReturnToPool()
		last.ReturnToPool()
		first.ReturnToPool()
		next.ReturnToPool()
	}
	if broken > 0 {
		t.Fatalf("in %d of %d trials the frame after the wrap (seq 2, new key) no longer unsealed", broken, trials)
	}
}
