package mycoria

import (
	"context"
	"fmt"
	"net"
	"net/netip"
	"runtime/pprof"
	"strings"
	"testing"
	"time"

	"github.com/mycoria/mycoria/config"
	"github.com/mycoria/mycoria/m"
)

// TestC20SilentInboundConnectionWedgesStop shows that a relay-only router can
// not be stopped cleanly once any TCP client has connected to its peering
// listener without completing the peering handshake: the "setup link" worker
// blocks forever in a read without deadline on a connection that Stop() never
// closes, so Stop() reports failure (after the 1 minute worker timeout) and
// the worker goroutine is leaked.
func TestC20SilentInboundConnectionWedgesStop(t *testing.T) {
	// Find a free loopback port.
	probe, err := net.Listen("tcp", "127.0.0.1:0")
	if err != nil {
		t.Fatal(err)
	}
	port := probe.Addr().(*net.TCPAddr).Port
	_ = probe.Close()

	// Build a valid relay-only configuration.
	prefix, err := m.GetCountryPrefix("AT")
	if err != nil {
		t.Fatal(err)
	}
	id, _, err := m.GenerateRoutableAddress(context.Background(), []netip.Prefix{prefix}, nil, 0)
	if err != nil {
		t.Fatal(err)
	}
	c, err := config.Store{
		Router: config.Router{
			Address:        id.Store(),
			Universe:       "test",
			UniverseSecret: "password",
			Listen:         []string{fmt.Sprintf("tcp://127.0.0.1:%d", port)},
		},
		System: config.System{DisableTun: true},
	}.Parse()
	if err != nil {
		t.Fatal(err)
	}

	inst, err := New("test", c)
	if err != nil {
		t.Fatal(err)
	}
	if err := inst.Start(); err != nil {
		t.Fatal(err)
	}

	// Connect a plain TCP client that never says anything.
	var conn net.Conn
	for i := 0; i < 100; i++ {
		conn, err = net.Dial("tcp", fmt.Sprintf("127.0.0.1:%d", port))
		if err == nil {
			break
		}
		time.Sleep(50 * time.Millisecond)
	}
	if err != nil {
		t.Fatalf("listener did not come up: %s", err)
	}
	defer conn.Close() //nolint:errcheck

	// The router sends its peering request first. Once we have seen a byte of
	// it, the "setup link" worker is running and waits for our answer.
	_ = conn.SetReadDeadline(time.Now().Add(10 * time.Second))
	if _, err := conn.Read(make([]byte, 1)); err != nil {
		t.Fatalf("router did not start link setup: %s", err)
	}

	// Stop the router. The client connection is still open and silent.
	started := time.Now()
	ok := inst.Stop()
	if !ok {
		var sb strings.Builder
		_ = pprof.Lookup("goroutine").WriteTo(&sb, 1)
		leaked := strings.Contains(sb.String(), "setupWorker")
		t.Fatalf(
			"Stop() returned false after %s: a worker is left running (setupWorker goroutine still alive: %v)",
			time.Since(started).Round(time.Second), leaked,
		)
	}
}
