package mycoria

import (
	"context"
	"fmt"
	"net"
	"net/netip"
	"runtime/pprof"
	"strings"
	"testing"
	"time"

	"github.com/mycoria/mycoria/config"
	"github.com/mycoria/mycoria/m"
)

// TestC20SilentConnectTargetWedgesConnectManager shows that a relay-only
// router whose router.connect entry points to a TCP endpoint that accepts the
// connection but never answers the peering handshake can not be stopped: the
// "connect manager" worker blocks forever inside PeerWith -> handleSetup in a
// read without deadline. The manager context only covers the dial, and Stop()
// only closes registered links, so the worker never returns. Stop() reports
// failure after the 1 minute worker timeout and the goroutine is leaked.
func TestC20SilentConnectTargetWedgesConnectManager(t *testing.T) {
	// Start a TCP server that accepts connections, reads, but never answers.
	silent, err := net.Listen("tcp", "127.0.0.1:0")
	if err != nil {
		t.Fatal(err)
	}
	defer silent.Close() //nolint:errcheck
	gotRequest := make(chan net.Conn, 16)
	go func() {
		for {
			conn, err := silent.Accept()
			if err != nil {
				return
			}
			// Wait for the first byte of the router's peering request, then stay silent.
			if _, err := conn.Read(make([]byte, 1)); err == nil {
				gotRequest <- conn
			}
		}
	}()

	// Build a valid relay-only configuration that connects to that endpoint.
	prefix, err := m.GetCountryPrefix("AT")
	if err != nil {
		t.Fatal(err)
	}
	id, _, err := m.GenerateRoutableAddress(context.Background(), []netip.Prefix{prefix}, nil, 0)
	if err != nil {
		t.Fatal(err)
	}
	c, err := config.Store{
		Router: config.Router{
			Address:        id.Store(),
			Universe:       "test",
			UniverseSecret: "password",
			Connect:        []string{fmt.Sprintf("tcp://%s", silent.Addr())},
		},
		System: config.System{DisableTun: true},
	}.Parse()
	if err != nil {
		t.Fatal(err)
	}

	inst, err := New("test", c)
	if err != nil {
		t.Fatal(err)
	}
	if err := inst.Start(); err != nil {
		t.Fatal(err)
	}

	// Wait until the connect manager has sent its peering request and is now
	// waiting for the response.
	select {
	case conn := <-gotRequest:
		defer conn.Close() //nolint:errcheck
	case <-time.After(10 * time.Second):
		t.Fatal("router did not connect")
	}

	// Stop the router.
	started := time.Now()
	ok := inst.Stop()
	if !ok {
		var sb strings.Builder
		_ = pprof.Lookup("goroutine").WriteTo(&sb, 1)
		leaked := strings.Contains(sb.String(), "connectMgr")
		t.Fatalf(
			"Stop() returned false after %s: a worker is left running (connectMgr goroutine still alive: %v)",
			time.Since(started).Round(time.Second), leaked,
		)
	}
}
