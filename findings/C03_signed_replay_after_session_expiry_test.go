package state

import (
	"context"
	"testing"
	"time"

	"github.com/mycoria/mycoria/config"
	"github.com/mycoria/mycoria/m"
)

// A signed frame's timestamp is remembered only as long as the session object lives: after the session cleaner
// has dropped an idle session (one minute without encryption set up), the same timestamp is accepted again.
func TestSignedReplayAfterSessionExpiry(t *testing.T) {
	ctx := context.Background()
	a1, _, err := m.GeneratePrivacyAddress(ctx)
	if err != nil {
		t.Fatal(err)
	}
	a2, _, err := m.GeneratePrivacyAddress(ctx)
	if err != nil {
		t.Fatal(err)
	}
	st := New(&instanceStub{IdentityStub: a1, ConfigStub: &config.Config{}}, nil)
	if err := st.AddRouter(&a2.PublicAddress); err != nil {
		t.Fatal(err)
	}
	stamp := time.Now().Round(time.Millisecond)
	s := st.GetSession(a2.IP)
	if err := s.Signing().Seq().Check(stamp); err != nil {
		t.Fatal(err)
	}
	if err := s.Signing().Seq().Check(stamp); err == nil {
		t.Fatal("immediate duplicate accepted")
	}
	// one idle minute later the cleaner runs
	s.lock.Lock()
	s.lastActivity = time.Now().Add(-61 * time.Second)
	s.lock.Unlock()
	st.cleanSessions()
	s2 := st.GetSession(a2.IP)
	if err := s2.Signing().Seq().Check(stamp); err == nil {
		t.Fatalf("signed frame with timestamp %v accepted a second time after the session was recycled", stamp)
	}
}
