package m

import (
	"testing"
)

// C01: every malformed identity (including odd key sizes) loaded from
// configuration must be rejected with an error, without crashing.
//
// AddressFromStorage calls crop.MakeEd25519KeyPair(privKey, pubKey) BEFORE it
// checks the key sizes. MakeEd25519KeyPair derives the public key via
// privKey.Public() whenever the public key is empty and the private key is
// not; ed25519.PrivateKey.Public() slices priv[32:], which panics for any
// private key shorter than 32 bytes.
func TestC01HuntAddressFromStorageShortPrivateKeyPanics(t *testing.T) {
	for _, tc := range []struct {
		name string
		s    AddressStorage
	}{
		{
			name: "public key missing, private key 1 byte",
			s: AddressStorage{
				IP:         "fded:365:6fc:518:b9ec:c31e:4565:6bf2",
				Hash:       "BLAKE3",
				Type:       "Ed25519",
				PublicKey:  "",
				PrivateKey: "a6",
			},
		},
		{
			name: "public key missing, private key 31 bytes",
			s: AddressStorage{
				IP:         "fded:365:6fc:518:b9ec:c31e:4565:6bf2",
				Hash:       "BLAKE3",
				Type:       "Ed25519",
				PublicKey:  "",
				PrivateKey: "a6c76135f1a94ced3f303d219861c00a464f1ffe46f1362decd6edd0a2b456",
			},
		},
	} {
		t.Run(tc.name, func(t *testing.T) {
			defer func() {
				if r := recover(); r != nil {
					t.Errorf("AddressFromStorage crashed instead of returning an error: %v", r)
				}
			}()
			addr, err := AddressFromStorage(tc.s)
			if err == nil {
				t.Errorf("malformed identity accepted: %+v", addr)
			}
		})
	}
}
