package dns

import (
	"net"
	"net/netip"
	"testing"

	mdns "github.com/miekg/dns"

	"github.com/mycoria/mycoria/config"
	"github.com/mycoria/mycoria/m"
	"github.com/mycoria/mycoria/state"
	"github.com/mycoria/mycoria/storage"
	"github.com/mycoria/mycoria/tun"
)

// Demo for C19: a configured friend whose name contains an upper-case letter
// is never matched by Server.Lookup (queries are lower-cased, FriendsByName
// keys are not), so a stored mapping for the same name answers instead of the
// friend entry - a learned mapping shadows a friend name.

type demoInstance struct{ cfg *config.Config }

func (i *demoInstance) Version() string        { return "test" }
func (i *demoInstance) Config() *config.Config { return i.cfg }
func (i *demoInstance) Identity() *m.Address   { return nil }
func (i *demoInstance) State() *state.State    { return nil }
func (i *demoInstance) TunDevice() *tun.Device { return nil }

type demoWriter struct{ msgs []*mdns.Msg }

func (w *demoWriter) LocalAddr() net.Addr         { return &net.UDPAddr{} }
func (w *demoWriter) RemoteAddr() net.Addr        { return &net.UDPAddr{} }
func (w *demoWriter) WriteMsg(m *mdns.Msg) error  { w.msgs = append(w.msgs, m); return nil }
func (w *demoWriter) Write(b []byte) (int, error) { return len(b), nil }
func (w *demoWriter) Close() error                { return nil }
func (w *demoWriter) TsigStatus() error           { return nil }
func (w *demoWriter) TsigTimersOnly(bool)         {}
func (w *demoWriter) Hijack()                     {}

func TestC19FriendNameCaseShadowedByMapping(t *testing.T) {
	friendIP := netip.MustParseAddr("fd1f::1")
	mappedIP := netip.MustParseAddr("fd1f::99")

	// Regular (non-test) config parsing, as done at startup.
	cfg, err := config.Store{
		Router:        config.Router{Listen: []string{"tcp:47369"}},
		FriendConfigs: []config.FriendConfig{{Name: "Alice", IP: friendIP.String()}},
	}.Parse()
	if err != nil {
		t.Fatalf("config rejected: %v", err)
	}

	ln, err := net.ListenPacket("udp", "127.0.0.1:0")
	if err != nil {
		t.Fatal(err)
	}
	defer ln.Close()

	mem := storage.NewMemStorage()
	srv, err := New(&demoInstance{cfg: cfg}, ln, mem)
	if err != nil {
		t.Fatal(err)
	}

	query := func(name string) *mdns.Msg {
		r := new(mdns.Msg)
		r.Id = 7
		r.Question = []mdns.Question{{Name: name, Qtype: mdns.TypeAAAA, Qclass: mdns.ClassINET}}
		w := &demoWriter{}
		srv.ServeDNS(w, r)
		if len(w.msgs) != 1 {
			t.Fatalf("query %q: got %d replies", name, len(w.msgs))
		}
		return w.msgs[0]
	}

	// Step 1: friend only. Every case variant of the friend's name must be
	// answered from the friend source.
	for _, name := range []string{"Alice.myco.", "alice.myco.", "ALICE.MYCO."} {
		reply := query(name)
		if reply.Rcode != mdns.RcodeSuccess || len(reply.Answer) != 1 {
			t.Errorf("friend only: query %q: rcode=%s answers=%v, want friend address %s",
				name, mdns.RcodeToString[reply.Rcode], reply.Answer, friendIP)
		}
	}

	// Step 2: what the dashboard does in mappingOpenPage/mappingOpenSet for
	// /open/Alice.myco/fd1f::99/ : clean the name, check Lookup, store mapping.
	cleaned, ok := config.CleanDomain("Alice.myco")
	if !ok {
		t.Fatal("CleanDomain rejected Alice.myco")
	}
	if _, src := srv.Lookup(cleaned); src != SourceFriend {
		t.Errorf("Lookup(%q) source = %q, want %q (dashboard would allow creating a mapping over the friend name)", cleaned, src, SourceFriend)
	}
	if err := mem.SaveMapping(cleaned, mappedIP); err != nil {
		t.Fatal(err)
	}

	// Step 3: the stored mapping must not change the answer for the friend name.
	for _, name := range []string{"Alice.myco.", "alice.myco."} {
		ip, src := srv.Lookup(cleaned)
		if src != SourceFriend || ip != friendIP {
			t.Errorf("with mapping: Lookup(%q) = %s from %q, want %s from %q", cleaned, ip, src, friendIP, SourceFriend)
		}
		reply := query(name)
		if len(reply.Answer) != 1 {
			t.Errorf("with mapping: query %q: rcode=%s answers=%v", name, mdns.RcodeToString[reply.Rcode], reply.Answer)
			continue
		}
		aaaa, isAAAA := reply.Answer[0].(*mdns.AAAA)
		if !isAAAA {
			t.Errorf("with mapping: query %q: answer is %T", name, reply.Answer[0])
			continue
		}
		got, _ := netip.AddrFromSlice(aaaa.AAAA)
		if got != friendIP {
			t.Errorf("with mapping: query %q answered %s (stored mapping) instead of friend address %s", name, got, friendIP)
		}
	}
}
