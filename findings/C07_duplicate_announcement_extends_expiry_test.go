package router

import (
	"context"
	"net"
	"net/netip"
	"strings"
	"testing"
	"time"

	"github.com/fxamacker/cbor/v2"

	"github.com/mycoria/mycoria/api/httpapi"
	"github.com/mycoria/mycoria/api/netstack"
	"github.com/mycoria/mycoria/config"
	"github.com/mycoria/mycoria/frame"
	"github.com/mycoria/mycoria/m"
	"github.com/mycoria/mycoria/mgr"
	"github.com/mycoria/mycoria/peering"
	"github.com/mycoria/mycoria/state"
	"github.com/mycoria/mycoria/switchr"
	"github.com/mycoria/mycoria/tun"
)

// ---- minimal harness (hunt C07, finding 2) ----

type c07f2Instance struct {
	cfg *config.Config
	id  *m.Address
	fb  *frame.Builder
	st  *state.State
}

func (i *c07f2Instance) Version() string              { return "v0.0.0-test" }
func (i *c07f2Instance) Config() *config.Config       { return i.cfg }
func (i *c07f2Instance) Identity() *m.Address         { return i.id }
func (i *c07f2Instance) FrameBuilder() *frame.Builder { return i.fb }
func (i *c07f2Instance) State() *state.State          { return i.st }
func (i *c07f2Instance) NetStack() *netstack.NetStack { return nil }
func (i *c07f2Instance) API() *httpapi.API            { return nil }
func (i *c07f2Instance) TunDevice() *tun.Device       { return nil }
func (i *c07f2Instance) Switch() *switchr.Switch      { return nil }
func (i *c07f2Instance) Peering() *peering.Peering    { return nil }

type c07f2Link struct {
	peer  netip.Addr
	label m.SwitchLabel
}

func (l *c07f2Link) String() string                              { return "testlink " + l.peer.String() }
func (l *c07f2Link) Peer() netip.Addr                            { return l.peer }
func (l *c07f2Link) SwitchLabel() m.SwitchLabel                  { return l.label }
func (l *c07f2Link) PeeringURL() *m.PeeringURL                   { return nil }
func (l *c07f2Link) Outgoing() bool                              { return false }
func (l *c07f2Link) SendPriority(f frame.Frame) error            { return nil }
func (l *c07f2Link) Send(f frame.Frame) error                    { return nil }
func (l *c07f2Link) LocalAddr() net.Addr                         { return nil }
func (l *c07f2Link) RemoteAddr() net.Addr                        { return nil }
func (l *c07f2Link) Latency() uint16                             { return 7 }
func (l *c07f2Link) FlowControlIndicator() frame.FlowControlFlag { return 0 }
func (l *c07f2Link) IsClosing() bool                             { return false }

func c07f2Addr(t *testing.T) *m.Address {
	t.Helper()
	a, _, err := m.GenerateRoutableAddress(context.Background(), []netip.Prefix{m.RoutingAddressPrefix}, nil, 0)
	if err != nil {
		t.Fatal(err)
	}
	return a
}

func c07f2Router(t *testing.T) *Router {
	t.Helper()
	cfg := &config.Config{}
	cfg.Router.Stub = true // do not forward (no peering/switch in this harness)
	cfg.Router.Universe = "test"
	inst := &c07f2Instance{cfg: cfg, id: c07f2Addr(t), fb: frame.NewFrameBuilder()}
	inst.st = state.New(inst, nil)
	r, err := New(inst, Config{})
	if err != nil {
		t.Fatal(err)
	}
	return r
}

// c07f2Ping builds a raw-signed broadcast ping exactly as sendPingMsg does for
// an unknown destination (m.RouterAddress).
func c07f2Ping(t *testing.T, fb *frame.Builder, from *m.Address, msgType frame.MessageType, pingType string, body any, seq time.Time) frame.Frame {
	t.Helper()
	data, err := cbor.Marshal(body)
	if err != nil {
		t.Fatal(err)
	}
	hdr := PingHeader{
		PingID:    newPingID(),
		PingType:  pingType,
		AddrHash:  from.Hash,
		KeyType:   from.Type,
		PublicKey: from.PublicKey,
	}
	hdrData, err := cbor.Marshal(&hdr)
	if err != nil {
		t.Fatal(err)
	}
	frameData := make([]byte, 2+len(hdrData)+len(data))
	frameData[0] = 1
	frameData[1] = uint8(len(hdrData))
	copy(frameData[2:], hdrData)
	copy(frameData[2+len(hdrData):], data)

	f, err := fb.NewFrameV1(from.IP, m.RouterAddress, msgType, nil, frameData, nil)
	if err != nil {
		t.Fatal(err)
	}
	f.SetTTL(0)
	f.SetSequenceTime(seq)
	if err := f.SignRaw(from.PrivateKey); err != nil {
		t.Fatal(err)
	}
	f.SetTTL(32)
	return f
}

// c07f2Attach adds the (genuinely signed) forwarding attachment of router "via".
func c07f2Attach(t *testing.T, r *Router, f frame.Frame, via *m.Address) {
	t.Helper()
	attach := AnnouncePingAttachment{
		Router:       via.PublicAddress,
		Delay:        3,
		ForwardLabel: 11,
		ReturnLabel:  12,
	}
	attachData, err := cbor.Marshal(attach)
	if err != nil {
		t.Fatal(err)
	}
	sig, err := via.SignWithContext(attachData, r.AnnouncePing.signingContext(f))
	if err != nil {
		t.Fatal(err)
	}
	if err := f.SetAppendixData(append(attachData, sig...)); err != nil {
		t.Fatal(err)
	}
}

func c07f2Deliver(t *testing.T, r *Router, f frame.Frame, from netip.Addr) error {
	t.Helper()
	c := f.Clone() // byte-identical copy, as an on-wire replay would be
	c.SetRecvLink(&c07f2Link{peer: from, label: 5})
	var herr error
	_ = mgr.New("test").Do("deliver", func(w *mgr.WorkerCtx) error {
		herr = r.handlePing(w, c)
		return nil
	})
	return herr
}

func c07f2Routes(r *Router, dst netip.Addr) int {
	return strings.Count(r.table.Format(), dst.StringExpanded())
}

// TestC07ReplayedAnnounceExtendsRouteExpiry:
//  1. X announces itself (Expires = now+10m10s, as AnnouncePingHandler.Send does),
//     the announcement is forwarded to us by our peer Z -> gossip route X via Z
//     that expires at the time X stated.
//  2. 11 seconds later the byte-identical frame is replayed. X has sent nothing
//     since, so this is the "exact duplicate of the newest announcement":
//     parsePingMsg tolerates ErrImmediateDuplicateFrame and runs the handler.
//
// C07 demands that the duplicate leaves the routing table unchanged. Instead
// AddRoute replaces the entry and (because less than 10 minutes are left)
// raises Expires to replay-time+10m. Replaying the same frame again and again
// keeps the route of a silent/dead router alive (until 1h after the signed
// expiry) although no new authenticated message of X exists.
func TestC07ReplayedAnnounceExtendsRouteExpiry(t *testing.T) {
	r := c07f2Router(t)
	x := c07f2Addr(t) // announcing router
	z := c07f2Addr(t) // our peer, forwards X's announcement
	fb := frame.NewFrameBuilder()

	now := time.Now()
	seq := now.Round(state.DefaultPrecision).Add(-state.DefaultPrecision)

	ann := c07f2Ping(t, fb, x, frame.RouterHopPingDeprecated, announcePingType, &AnnouncePingMsg{
		Info:        &m.RouterInfo{Version: "v1"},
		ReturnLabel: 9,
		Expires:     now.Add(announceInterval*2 + 10*time.Second),
	}, seq)
	c07f2Attach(t, r, ann, z)
	if err := c07f2Deliver(t, r, ann, z.IP); err != nil {
		t.Fatalf("genuine announcement rejected: %v", err)
	}
	rte, ok := r.table.LookupNearest(x.IP)
	if rte == nil || !ok || c07f2Routes(r, x.IP) != 1 {
		t.Fatalf("setup: expected exactly one route to X")
	}
	entryBefore := rte
	expiresBefore := rte.Expires

	time.Sleep(11 * time.Second)

	// Replay the byte-identical announcement.
	err := c07f2Deliver(t, r, ann, z.IP)
	rte, ok = r.table.LookupNearest(x.IP)
	if rte == nil || !ok {
		t.Fatalf("route vanished")
	}
	if rte != entryBefore || !rte.Expires.Equal(expiresBefore) {
		t.Fatalf("C07 violated: replayed duplicate announcement (handlePing err=%v) changed the routing table: entry replaced=%v, expires before=%s after=%s (extended by %s)",
			err, rte != entryBefore, expiresBefore.Format(time.RFC3339Nano), rte.Expires.Format(time.RFC3339Nano), rte.Expires.Sub(expiresBefore))
	}
}
