package peering

import (
	"bytes"
	"encoding/binary"
	"io"
	"net"
	"testing"
	"time"

	"github.com/mycoria/mycoria/config"
	"github.com/mycoria/mycoria/frame"
	"github.com/mycoria/mycoria/m"
)

// Two routers R and P open a connection to each other at (almost) the same
// time: connection 1 is dialed by R (R client, P server), connection 2 is
// dialed by P (P client, R server). Every handshake message is delivered
// unmodified, in order, on the connection it was sent on.
//
// The key exchange state (kxRouterPrivate / kxRemotePublic) is kept in the
// per-router state.Session, which both connections share. P handling R's
// request of connection 2 (InitKeyClientStart) overwrites the ephemeral
// private key that P generated for connection 1 (InitKeyServer) before P has
// finalized connection 1.
//
// Result: both ends of connection 1 complete the handshake without any error,
// but derive different link keys.

func huntC04Cfg() *config.Config {
	return config.MakeTestConfig(config.Store{
		Router: config.Router{
			Universe:       "test",
			UniverseSecret: "password",
		},
	})
}

// TestHuntC04CrossedConnectionsStateLevel drives the peering state machines directly.
func TestHuntC04CrossedConnectionsStateLevel(t *testing.T) {
	instR := getTestInstance(t, huntC04Cfg())
	instP := getTestInstance(t, huntC04Cfg())
	peeringR := New(instR, nil)
	peeringP := New(instP, nil)

	must := func(f frame.Frame, err error) frame.Frame {
		t.Helper()
		if err != nil {
			t.Fatalf("unexpected handshake error: %s", err)
		}
		return f
	}

	// Connection 1: R is the client, P is the server.
	c1R, reqR1, err := peeringR.createPeeringRequest(true)
	if err != nil {
		t.Fatal(err)
	}
	c1P, reqP1, err := peeringP.createPeeringRequest(false)
	if err != nil {
		t.Fatal(err)
	}

	respR1 := must(c1R.handle(reqP1)) // R handles P's request.
	respP1 := must(c1P.handle(reqR1)) // P handles R's request.

	// Connection 2 is opened in the meantime: P is the client, R is the server.
	time.Sleep(3 * time.Millisecond)
	_, reqR2, err := peeringR.createPeeringRequest(false)
	if err != nil {
		t.Fatal(err)
	}
	c2P, _, err := peeringP.createPeeringRequest(true)
	if err != nil {
		t.Fatal(err)
	}
	time.Sleep(3 * time.Millisecond)

	ackP1 := must(c1P.handle(respR1)) // P handles R's response.
	ackR1 := must(c1R.handle(respP1)) // R handles P's response.

	// R handles P's ack and is done with connection 1.
	if f := must(c1R.handle(ackP1)); f != nil {
		t.Fatal("expected no further message")
	}
	linkEncR, err := c1R.finalize()
	if err != nil {
		t.Fatal(err)
	}

	// Connection 2: P handles R's request.
	_ = must(c2P.handle(reqR2))

	// Connection 1: P handles R's ack and is done with connection 1.
	if f := must(c1P.handle(ackR1)); f != nil {
		t.Fatal("expected no further message")
	}
	linkEncP, err := c1P.finalize()
	if err != nil {
		t.Fatal(err)
	}

	// Both ends of connection 1 completed. Each reports the other's address.
	if c1R.session.Address().IP != instP.Identity().IP || c1P.session.Address().IP != instR.Identity().IP {
		t.Fatal("wrong peer addresses")
	}

	// Traffic sealed by one end must unseal at the other.
	buf := make([]byte, FrameOffset+len(testData)+FrameOverhead)
	lf := LinkFrame(buf)
	copy(lf.LinkData(), testData)
	if err := lf.Seal(linkEncR); err != nil {
		t.Fatal(err)
	}
	if err := lf.Unseal(linkEncP); err != nil {
		t.Errorf("C04 violated: both ends completed the handshake of connection 1, but a link frame sealed by R does not unseal at P: %s", err)
	}
	buf2 := make([]byte, FrameOffset+len(testData)+FrameOverhead)
	lf2 := LinkFrame(buf2)
	copy(lf2.LinkData(), testData)
	if err := lf2.Seal(linkEncP); err != nil {
		t.Fatal(err)
	}
	if err := lf2.Unseal(linkEncR); err != nil {
		t.Errorf("C04 violated: both ends completed the handshake of connection 1, but a link frame sealed by P does not unseal at R: %s", err)
	}
}

// huntC04Wire is the test's end of a net.Pipe to a link under setup.
type huntC04Wire struct {
	t    *testing.T
	conn net.Conn
}

func (w *huntC04Wire) read() []byte {
	w.t.Helper()
	_ = w.conn.SetReadDeadline(time.Now().Add(5 * time.Second))
	hdr := make([]byte, 2)
	if _, err := io.ReadFull(w.conn, hdr); err != nil {
		w.t.Fatalf("read length: %s", err)
	}
	msg := make([]byte, binary.BigEndian.Uint16(hdr))
	copy(msg, hdr)
	if _, err := io.ReadFull(w.conn, msg[2:]); err != nil {
		w.t.Fatalf("read msg: %s", err)
	}
	return msg
}

func (w *huntC04Wire) write(msg []byte) {
	w.t.Helper()
	_ = w.conn.SetWriteDeadline(time.Now().Add(5 * time.Second))
	if _, err := w.conn.Write(msg); err != nil {
		w.t.Fatalf("write msg: %s", err)
	}
}

type huntC04SetupResult struct {
	link *LinkBase
	err  error
}

func huntC04StartSetup(t *testing.T, p *Peering, outgoing bool) (*huntC04Wire, chan huntC04SetupResult) {
	t.Helper()
	routerEnd, testEnd := net.Pipe()
	result := make(chan huntC04SetupResult, 1)
	link := newLinkBase(routerEnd, &m.PeeringURL{Protocol: "pipe"}, outgoing, p)
	go func() {
		l, err := link.handleSetup(p.mgr)
		result <- huntC04SetupResult{l, err}
	}()
	return &huntC04Wire{t: t, conn: testEnd}, result
}

// TestHuntC04CrossedConnectionsLinkLevel runs the real link setup
// (LinkBase.handleSetup) of both routers for both connections over pipes.
// The test only forwards the unmodified bytes of every message to the other
// end of the same connection.
func TestHuntC04CrossedConnectionsLinkLevel(t *testing.T) {
	instR := getTestInstance(t, huntC04Cfg())
	instP := getTestInstance(t, huntC04Cfg())
	recvR := make(chan frame.Frame, 10)
	recvP := make(chan frame.Frame, 10)
	peeringR := New(instR, recvR)
	peeringP := New(instP, recvP)

	// Connection 1: R dials P.
	r1, r1Done := huntC04StartSetup(t, peeringR, true)
	p1, p1Done := huntC04StartSetup(t, peeringP, false)
	reqR1 := r1.read()
	reqP1 := p1.read()

	r1.write(reqP1)
	respR1 := r1.read()
	p1.write(reqR1)
	respP1 := p1.read()

	// Connection 2: P dials R in the meantime.
	time.Sleep(3 * time.Millisecond)
	r2, _ := huntC04StartSetup(t, peeringR, false)
	p2, _ := huntC04StartSetup(t, peeringP, true)
	reqR2 := r2.read()
	_ = p2.read()
	time.Sleep(3 * time.Millisecond)

	// Connection 1 continues.
	p1.write(respR1)
	ackP1 := p1.read()
	r1.write(respP1)
	ackR1 := r1.read()
	r1.write(ackP1)
	resR := <-r1Done
	if resR.err != nil {
		t.Fatalf("R failed to set up connection 1: %s", resR.err)
	}

	// Connection 2: P receives R's request and answers it.
	p2.write(reqR2)
	_ = p2.read()

	// Connection 1: P receives R's ack.
	p1.write(ackR1)
	resP := <-p1Done
	if resP.err != nil {
		t.Fatalf("P failed to set up connection 1: %s", resP.err)
	}

	// Both routers registered a link for connection 1 with the true address of the other.
	lR := peeringR.GetLink(instP.Identity().IP)
	lP := peeringP.GetLink(instR.Identity().IP)
	if lR == nil || lP == nil {
		t.Fatalf("links not registered: R:%v P:%v", lR, lP)
	}
	if lR != Link(resR.link) || lP != Link(resP.link) {
		t.Fatal("unexpected links registered")
	}
	t.Logf("R registered %s", lR)
	t.Logf("P registered %s", lP)

	// From now on, just copy bytes between both ends of connection 1.
	_ = r1.conn.SetDeadline(time.Time{})
	_ = p1.conn.SetDeadline(time.Time{})
	go func() { _, _ = io.Copy(p1.conn, r1.conn) }()
	go func() { _, _ = io.Copy(r1.conn, p1.conn) }()
	defer func() {
		_ = r1.conn.Close()
		_ = p1.conn.Close()
		_ = r2.conn.Close()
		_ = p2.conn.Close()
	}()

	// Send a frame over the registered link in both directions.
	send := func(from instance, l Link, recv chan frame.Frame, dir string) {
		f, err := from.FrameBuilder().NewFrameV1(
			m.RouterAddress, m.RouterAddress, frame.NetworkTraffic,
			nil, []byte(testRequest), nil,
		)
		if err != nil {
			t.Fatal(err)
		}
		if err := l.Send(f); err != nil {
			t.Fatal(err)
		}
		select {
		case got := <-recv:
			if !bytes.Equal(got.MessageData(), []byte(testRequest)) {
				t.Errorf("%s: wrong data received", dir)
			}
		case <-time.After(2 * time.Second):
			t.Errorf("C04 violated: both routers completed the handshake and registered the link, but a frame sent %s over the link never unseals at the other end", dir)
		}
	}
	send(instR, lR, recvP, "from R to P")
	send(instP, lP, recvR, "from P to R")
}
