package frame

import (
	"net/netip"
	"testing"
)

// An announcement that fills most of its 500-byte pooled buffer cannot take another signed hop record:
// Clone gives a buffer of the same size and SetAppendixData refuses to grow it, so the forward is dropped.
func TestAppendixGrowth(t *testing.T) {
	b := NewFrameBuilder()
	src := netip.MustParseAddr("fd00::1")
	dst := netip.MustParseAddr("fd00::2")
	f, err := b.NewFrameV1(src, dst, RouterHopPing, nil, make([]byte, 300), nil)
	if err != nil {
		t.Fatal(err)
	}
	fwd := f.Clone()
	if err := fwd.SetAppendixData(make([]byte, 250)); err != nil {
		t.Fatalf("hop record of 250 bytes refused on a %d byte frame: %v", len(f.data), err)
	}
	if len(fwd.AppendixData()) != 250 || len(fwd.MessageData()) != 300 {
		t.Fatalf("frame damaged: appendix %d message %d", len(fwd.AppendixData()), len(fwd.MessageData()))
	}
}
