package peering

import (
	"fmt"
	"net/netip"
	"sync"
	"sync/atomic"
	"testing"
	"time"

	"github.com/mycoria/mycoria/config"
	"github.com/mycoria/mycoria/frame"
	"github.com/mycoria/mycoria/m"
)

// TestC16CrossConnectSharedKeyExchangePanics replays, message by message, the
// handshake of two routers A and B that dial each other at the same time
// (connection X: B dials A, connection Y: A dials B). It drives exactly the
// functions LinkBase.handleSetupMessages / handleSetup / setupWorker drive
// (createPeeringRequest, peeringRequestState.handle, finalize), in an order in
// which every frame passes the per-session signature sequence check.
//
// Both handshakes of one router use the SAME per-peer state.Session and so
// the same EncryptionSession key-exchange scratch state
// (kxRouterPrivate / kxRemotePublic). The "already connected" check of
// handlePeeringRequest is passed by both, because neither link is registered
// yet. When the handshake of X finishes first on A, finalize() runs
// InitCleanup() and wipes the key exchange state that the still running
// handshake of Y (A is the client there, between InitKeyClientStart and
// InitKeyClientComplete) depends on: Y's last step dereferences a nil
// *ecdh.PrivateKey and panics in the goroutine that called PeerWith.
func TestC16CrossConnectSharedKeyExchangePanics(t *testing.T) {
	c := config.MakeTestConfig(config.Store{
		Router: config.Router{Universe: "test", UniverseSecret: "password"},
	})
	instA := getTestInstance(t, c)
	instB := getTestInstance(t, c)
	pA := New(instA, nil)
	pB := New(instB, nil)

	must := func(what string, f frame.Frame, err error) frame.Frame {
		t.Helper()
		if err != nil {
			t.Fatalf("%s: unexpected handshake error (test setup): %v", what, err)
		}
		return f
	}

	// Connection X: B dials A (B is client, A is server).
	ax, reqAx, err := pA.createPeeringRequest(false)
	must("create Ax", nil, err)
	bx, reqBx, err := pB.createPeeringRequest(true)
	must("create Bx", nil, err)
	time.Sleep(3 * time.Millisecond)
	// Connection Y: A dials B (A is client, B is server), at the same time.
	ay, reqAy, err := pA.createPeeringRequest(true)
	must("create Ay", nil, err)
	by, reqBy, err := pB.createPeeringRequest(false)
	must("create By", nil, err)
	time.Sleep(3 * time.Millisecond)

	// Step 1 of both handshakes on both routers. Both pass the
	// "already connected to this router" check: no link is registered yet.
	respAx, err := ax.handle(reqBx)
	must("A/X request", respAx, err)
	respAy, err := ay.handle(reqBy) // A: InitKeyClientStart for Y.
	must("A/Y request", respAy, err)
	respBx, err := bx.handle(reqAx)
	must("B/X request", respBx, err)
	respBy, err := by.handle(reqAy)
	must("B/Y request", respBy, err)

	// Connection X is a bit faster than connection Y.
	ackAx, err := ax.handle(respBx) // A: InitKeyServer for X overwrites Y's client key.
	must("A/X response", ackAx, err)
	ackBx, err := bx.handle(respAx)
	must("B/X response", ackBx, err)
	ackAy, err := ay.handle(respBy)
	must("A/Y response", ackAy, err)
	_ = ackAy

	// X completes on A: setupWorker calls finalize() -> InitCleanup() and then AddLink.
	_, err = ax.handle(ackBx)
	must("A/X ack", nil, err)
	if _, err := ax.finalize(); err != nil {
		t.Fatalf("A/X finalize: %v", err)
	}

	// B continues with Y and X.
	ackBy, err := by.handle(respAy)
	must("B/Y response", ackBy, err)
	_, err = bx.handle(ackAx)
	must("B/X ack", nil, err)

	// Y's last message arrives on A: handleSetup (called by PeerWith) handles it.
	func() {
		defer func() {
			if r := recover(); r != nil {
				t.Fatalf("simultaneous cross-connect: handshake of the outgoing link panicked "+
					"because the handshake of the incoming link to the same peer cleaned up the shared "+
					"key exchange state: %v", r)
			}
		}()
		_, err = ay.handle(ackBy)
	}()
	// Anything but a panic (an error, or a clean finish) is acceptable here.
	_ = fmt.Sprint(err)
}

// TestC16CrossConnectSharedKeyExchangeWrongKeys shows the silent variant: with
// a slightly different timing nothing fails at all, both ends finish the
// handshake of connection Y "successfully" (so both would AddLink it, if it is
// the first to finish) but derive different link keys, because A mixed in the
// private key of connection X.
func TestC16CrossConnectSharedKeyExchangeWrongKeys(t *testing.T) {
	c := config.MakeTestConfig(config.Store{
		Router: config.Router{Universe: "test", UniverseSecret: "password"},
	})
	instA := getTestInstance(t, c)
	instB := getTestInstance(t, c)
	pA := New(instA, nil)
	pB := New(instB, nil)

	must := func(what string, err error) {
		t.Helper()
		if err != nil {
			t.Fatalf("%s: unexpected handshake error (test setup): %v", what, err)
		}
	}

	ax, reqAx, err := pA.createPeeringRequest(false)
	must("create Ax", err)
	bx, reqBx, err := pB.createPeeringRequest(true)
	must("create Bx", err)
	time.Sleep(3 * time.Millisecond)
	ay, reqAy, err := pA.createPeeringRequest(true)
	must("create Ay", err)
	by, reqBy, err := pB.createPeeringRequest(false)
	must("create By", err)
	time.Sleep(3 * time.Millisecond)

	respAx, err := ax.handle(reqBx)
	must("A/X request", err)
	respAy, err := ay.handle(reqBy) // A: InitKeyClientStart for Y (private key a_y).
	must("A/Y request", err)
	respBx, err := bx.handle(reqAx)
	must("B/X request", err)
	respBy, err := by.handle(reqAy)
	must("B/Y request", err)

	// A handles X's response: InitKeyServer replaces a_y by a_x.
	_, err = ax.handle(respBx)
	must("A/X response", err)
	_ = respAx

	// Y runs to completion on both sides.
	ackAy, err := ay.handle(respBy)
	must("A/Y response", err)
	ackBy, err := by.handle(respAy) // B: InitKeyServer(a_y public).
	must("B/Y response", err)
	_, err = by.handle(ackAy)
	must("B/Y ack", err)
	_, err = ay.handle(ackBy) // A: InitKeyClientComplete uses a_x instead of a_y.
	must("A/Y ack", err)

	linkEncA, err := ay.finalize()
	must("A/Y finalize", err)
	linkEncB, err := by.finalize()
	must("B/Y finalize", err)

	// Both ends now consider link Y established. Try to use it.
	testFrameData := make([]byte, FrameOffset+len(testData)+FrameOverhead)
	testFrame := LinkFrame(testFrameData)
	copy(testFrame.LinkData(), testData)
	if err := testFrame.Seal(linkEncA); err != nil {
		t.Fatalf("seal: %v", err)
	}
	if err := testFrame.Unseal(linkEncB); err != nil {
		t.Fatalf("both ends finished the handshake of the same connection without error, "+
			"but hold different link keys (frame from A cannot be unsealed by B): %v", err)
	}
}

// TestC16CrossConnectNatural does the same with real link objects and natural
// goroutine timing (probabilistic, no orchestration): two routers dial each
// other at the same time, 200 times. It counts panics in PeerWith and rounds in
// which both routers end up with a registered, not-closing link to each other
// over which a frame cannot be delivered (different link keys).
func TestC16CrossConnectNatural(t *testing.T) {
	c := config.MakeTestConfig(config.Store{
		Router: config.Router{Universe: "test", UniverseSecret: "password"},
	})
	iA := getTestInstance(t, c)
	iB := getTestInstance(t, c)
	var rcvB atomic.Int64
	chA := make(chan frame.Frame, 100)
	chB := make(chan frame.Frame, 100)
	go func() {
		for range chA {
		}
	}()
	go func() {
		for range chB {
			rcvB.Add(1)
		}
	}()
	pA := New(iA, chA)
	pB := New(iB, chB)
	l1, d1 := NewConnectedPipeStacks() // A dials B
	pB.AddProtocol("ab", l1)
	pA.AddProtocol("ab", d1)
	l2, d2 := NewConnectedPipeStacks() // B dials A
	pA.AddProtocol("ba", l2)
	pB.AddProtocol("ba", d2)
	if _, err := pB.StartListener(&m.PeeringURL{Protocol: "ab"}, netip.IPv4Unspecified()); err != nil {
		t.Fatal(err)
	}
	if _, err := pA.StartListener(&m.PeeringURL{Protocol: "ba"}, netip.IPv4Unspecified()); err != nil {
		t.Fatal(err)
	}

	var (
		both, dead int
		panics     atomic.Int64
		lastPanic  atomic.Value
	)
	for i := 0; i < 200; i++ {
		var wg sync.WaitGroup
		wg.Add(2)
		go func() {
			defer wg.Done()
			defer func() {
				if r := recover(); r != nil {
					panics.Add(1)
					lastPanic.Store(fmt.Sprint(r))
				}
			}()
			_, _ = pA.PeerWith(&m.PeeringURL{Protocol: "ab"}, netip.IPv4Unspecified())
		}()
		go func() {
			defer wg.Done()
			defer func() {
				if r := recover(); r != nil {
					panics.Add(1)
					lastPanic.Store(fmt.Sprint(r))
				}
			}()
			time.Sleep(time.Duration(i%10) * 20 * time.Microsecond)
			_, _ = pB.PeerWith(&m.PeeringURL{Protocol: "ba"}, netip.IPv4Unspecified())
		}()
		wg.Wait()
		time.Sleep(30 * time.Millisecond)

		la := pA.GetLink(iB.Identity().IP)
		lb := pB.GetLink(iA.Identity().IP)
		if la != nil && lb != nil && !la.IsClosing() && !lb.IsClosing() {
			both++
			before := rcvB.Load()
			f, err := iA.FrameBuilder().NewFrameV1(m.RouterAddress, m.RouterAddress, frame.NetworkTraffic, nil, []byte("hello"), nil)
			if err != nil {
				t.Fatal(err)
			}
			_ = la.Send(f)
			time.Sleep(20 * time.Millisecond)
			if rcvB.Load() == before {
				dead++
			}
		}
		pA.CloseLink(iB.Identity().IP)
		pB.CloseLink(iA.Identity().IP)
		time.Sleep(20 * time.Millisecond)
	}
	if panics.Load() > 0 || dead > 0 {
		t.Fatalf("200 simultaneous cross-connects: %d panics in PeerWith (last: %v); "+
			"%d of %d rounds with a live link registered on both routers that cannot carry a frame",
			panics.Load(), lastPanic.Load(), dead, both)
	}
}
