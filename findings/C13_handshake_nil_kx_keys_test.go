package peering

import (
	"crypto/ecdh"
	"crypto/rand"
	"fmt"
	"testing"
	"time"

	"github.com/fxamacker/cbor/v2"

	"github.com/mycoria/mycoria/config"
	"github.com/mycoria/mycoria/frame"
)

// TestHuntHandshakeNilKxPanic shows that a peer can panic the link setup
// (handshake) of a router by running two handshakes with it at the same time:
// finalize() of the second handshake calls InitCleanup() on the shared
// session, which removes the key exchange key that the first handshake
// still needs in InitKeyClientComplete() -> initFinalize().
func TestHuntHandshakeNilKxPanic(t *testing.T) {
	instA := getTestInstance(t, config.MakeTestConfig(config.Store{})) // Victim.
	instB := getTestInstance(t, config.MakeTestConfig(config.Store{})) // Malicious peer.
	peeringA := New(instA, nil)
	peeringB := New(instB, nil)

	// transfer moves a frame from one router to the other via the wire format.
	transfer := func(to instance, f frame.Frame) frame.Frame {
		t.Helper()
		raw, err := f.FrameDataWithMargins(0, 0)
		if err != nil {
			t.Fatal(err)
		}
		ps := to.FrameBuilder().GetPooledSlice(len(raw) + 2)
		copy(ps[2:], raw)
		nf, err := to.FrameBuilder().ParseFrame(ps[2:2+len(raw)], ps, 2)
		if err != nil {
			t.Fatal(err)
		}
		return nf
	}

	// Connection 1: A connects to B (A is client).
	a1, reqA1, err := peeringA.createPeeringRequest(true)
	if err != nil {
		t.Fatal(err)
	}
	b1, reqB1, err := peeringB.createPeeringRequest(false)
	if err != nil {
		t.Fatal(err)
	}
	// A handles B's request: generates its key exchange key (InitKeyClientStart).
	respA1, err := a1.handle(transfer(instA, reqB1))
	if err != nil {
		t.Fatal(err)
	}
	_ = respA1
	// B handles A's request and sends its response, A handles it (step 2).
	respB1, err := b1.handle(transfer(instB, reqA1))
	if err != nil {
		t.Fatal(err)
	}
	if _, err := a1.handle(transfer(instA, respB1)); err != nil {
		t.Fatal(err)
	}
	// B now holds back its ack for connection 1.

	// Connection 2: B connects to A (A is server) and completes the handshake.
	time.Sleep(5 * time.Millisecond)
	a2, msgFromA, err := peeringA.createPeeringRequest(false)
	if err != nil {
		t.Fatal(err)
	}
	b2, msgFromB, err := peeringB.createPeeringRequest(true)
	if err != nil {
		t.Fatal(err)
	}
	for msgFromA != nil || msgFromB != nil {
		newMsgFromA, err := a2.handle(transfer(instA, msgFromB))
		if err != nil {
			t.Fatal(err)
		}
		newMsgFromB, err := b2.handle(transfer(instB, msgFromA))
		if err != nil {
			t.Fatal(err)
		}
		msgFromA, msgFromB = newMsgFromA, newMsgFromB
	}
	if _, err := a2.finalize(); err != nil {
		t.Fatal(err)
	}

	// B now sends the ack of connection 1, correctly signed with its real key.
	kx, err := ecdh.X25519().GenerateKey(rand.Reader)
	if err != nil {
		t.Fatal(err)
	}
	ackData, err := cbor.Marshal(&peeringAck{
		KeyExchange:     kx.PublicKey().Bytes(),
		KeyExchangeType: "ECDH-X25519/BLAKE3",
	})
	if err != nil {
		t.Fatal(err)
	}
	ack, err := instB.FrameBuilder().NewFrameV1(
		instB.Identity().IP, instA.Identity().IP, frame.RouterPing, nil, ackData, nil,
	)
	if err != nil {
		t.Fatal(err)
	}
	if err := ack.Seal(instB.State().GetSession(instA.Identity().IP)); err != nil {
		t.Fatal(err)
	}

	var panicked any
	func() {
		defer func() { panicked = recover() }()
		_, err = a1.handle(transfer(instA, ack))
	}()
	if panicked != nil {
		t.Fatalf("handshake handler panicked on peering ack: %v", fmt.Sprint(panicked))
	}
	t.Logf("ack handled without panic: err=%v", err)
}

// TestHuntHandshakeNilKxPanicAfterSessionReset is a variant with a single
// handshake: between the peering request and the peering ack, the encryption
// session of the peer is dropped, exactly like router.ErrorPingHandler.Handle
// does (State().SetEncryptionSession(src, nil)) when the same peer sends a
// signed "no encryption keys" error ping (ping code 2) via any other path.
func TestHuntHandshakeNilKxPanicAfterSessionReset(t *testing.T) {
	instA := getTestInstance(t, config.MakeTestConfig(config.Store{})) // Victim.
	instB := getTestInstance(t, config.MakeTestConfig(config.Store{})) // Malicious peer.
	peeringA := New(instA, nil)
	peeringB := New(instB, nil)

	transfer := func(to instance, f frame.Frame) frame.Frame {
		t.Helper()
		raw, err := f.FrameDataWithMargins(0, 0)
		if err != nil {
			t.Fatal(err)
		}
		ps := to.FrameBuilder().GetPooledSlice(len(raw) + 2)
		copy(ps[2:], raw)
		nf, err := to.FrameBuilder().ParseFrame(ps[2:2+len(raw)], ps, 2)
		if err != nil {
			t.Fatal(err)
		}
		return nf
	}

	// A connects to B (A is client).
	a1, reqA1, err := peeringA.createPeeringRequest(true)
	if err != nil {
		t.Fatal(err)
	}
	b1, reqB1, err := peeringB.createPeeringRequest(false)
	if err != nil {
		t.Fatal(err)
	}
	respA1, err := a1.handle(transfer(instA, reqB1))
	if err != nil {
		t.Fatal(err)
	}
	respB1, err := b1.handle(transfer(instB, reqA1))
	if err != nil {
		t.Fatal(err)
	}
	if _, err := a1.handle(transfer(instA, respB1)); err != nil {
		t.Fatal(err)
	}

	// Effect of a "no encryption keys" error ping from B handled by the router.
	if err := instA.State().SetEncryptionSession(instB.Identity().IP, nil); err != nil {
		t.Fatal(err)
	}

	// B continues the handshake normally.
	ackB1, err := b1.handle(transfer(instB, respA1))
	if err != nil {
		t.Fatal(err)
	}

	var panicked any
	func() {
		defer func() { panicked = recover() }()
		_, err = a1.handle(transfer(instA, ackB1))
	}()
	if panicked != nil {
		t.Fatalf("handshake handler panicked on peering ack: %v", fmt.Sprint(panicked))
	}
	t.Logf("ack handled without panic: err=%v", err)
}
