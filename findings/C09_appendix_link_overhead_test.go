package router

// Demo for C09, finding 1: a forwarded announcement is lost at the link writer
// when the re-written appendix leaves less than the link-frame overhead
// (peering.FrameOverhead = 16 bytes) of spare room in the pooled slice.
//
// The harness below wires real Router / Switch / Peering / State instances
// together with in-memory links. A link transfers a frame exactly like
// peering.LinkBase.writeFrame / readFrame do (minus the link encryption):
//   writer: data := f.FrameDataWithMargins(FrameOffset, FrameOverhead); on error the frame is dropped
//   reader: pooledSlice := GetPooledSlice(len(data)); ParseFrame(data[12:len-16], pooledSlice, 12)
// and hands the frame to the receiving router like switchr.handleFrame does
// for frames without switch block (escalate to router.handleFrame).

import (
	"context"
	"fmt"
	"io"
	"log/slog"
	"net"
	"net/netip"
	"strings"
	"testing"
	"time"

	"github.com/mycoria/mycoria/api/httpapi"
	"github.com/mycoria/mycoria/api/netstack"
	"github.com/mycoria/mycoria/config"
	"github.com/mycoria/mycoria/frame"
	"github.com/mycoria/mycoria/m"
	"github.com/mycoria/mycoria/mgr"
	"github.com/mycoria/mycoria/peering"
	"github.com/mycoria/mycoria/state"
	"github.com/mycoria/mycoria/switchr"
	"github.com/mycoria/mycoria/tun"
)

type f1Inst struct {
	cfg      *config.Config
	id       *m.Address
	builder  *frame.Builder
	st       *state.State
	sw       *switchr.Switch
	pr       *peering.Peering
	rt       *Router
	net      *f1Net
	idx      int
	linksOut map[int]*f1Link
}

func (i *f1Inst) Version() string               { return "v0.0.0" }
func (i *f1Inst) Config() *config.Config        { return i.cfg }
func (i *f1Inst) Identity() *m.Address          { return i.id }
func (i *f1Inst) FrameBuilder() *frame.Builder  { return i.builder }
func (i *f1Inst) State() *state.State           { return i.st }
func (i *f1Inst) NetStack() *netstack.NetStack  { return nil }
func (i *f1Inst) API() *httpapi.API             { return nil }
func (i *f1Inst) TunDevice() *tun.Device        { return nil }
func (i *f1Inst) Switch() *switchr.Switch       { return i.sw }
func (i *f1Inst) Peering() *peering.Peering     { return i.pr }
func (i *f1Inst) RoutingTable() *m.RoutingTable { return i.rt.Table() }

type f1Link struct {
	from, to *f1Inst
	label    m.SwitchLabel
}

var _ peering.Link = &f1Link{}

func (l *f1Link) String() string                              { return fmt.Sprintf("link %d->%d", l.from.idx, l.to.idx) }
func (l *f1Link) Peer() netip.Addr                            { return l.to.id.IP }
func (l *f1Link) SwitchLabel() m.SwitchLabel                  { return l.label }
func (l *f1Link) GeoMark() string                             { return "" }
func (l *f1Link) PeeringURL() *m.PeeringURL                   { return nil }
func (l *f1Link) Outgoing() bool                              { return true }
func (l *f1Link) Lite() bool                                  { return false }
func (l *f1Link) SendPriority(f frame.Frame) error            { return l.Send(f) }
func (l *f1Link) LocalAddr() net.Addr                         { return nil }
func (l *f1Link) RemoteAddr() net.Addr                        { return nil }
func (l *f1Link) Started() time.Time                          { return time.Time{} }
func (l *f1Link) Uptime() time.Duration                       { return 0 }
func (l *f1Link) Latency() uint16                             { return 5 }
func (l *f1Link) AddMeasuredLatency(latency time.Duration)    {}
func (l *f1Link) BytesIn() uint64                             { return 0 }
func (l *f1Link) BytesOut() uint64                            { return 0 }
func (l *f1Link) FlowControlIndicator() frame.FlowControlFlag { return 0 }
func (l *f1Link) IsClosing() bool                             { return false }
func (l *f1Link) Close(log func())                            {}
func (l *f1Link) Send(f frame.Frame) error {
	l.from.net.queue = append(l.from.net.queue, f1Msg{link: l, f: f})
	return nil
}

type f1Msg struct {
	link *f1Link
	f    frame.Frame
}

type f1Net struct {
	t           *testing.T
	nodes       []*f1Inst
	queue       []f1Msg
	writeErrors []string
}

var f1Addrs []*m.Address

func f1Addr(t *testing.T, n int) *m.Address {
	t.Helper()
	for len(f1Addrs) <= n {
		a, _, err := m.GenerateRoutableAddress(context.Background(), []netip.Prefix{m.RoutingAddressPrefix}, nil, 0)
		if err != nil {
			t.Fatal(err)
		}
		f1Addrs = append(f1Addrs, a)
	}
	return f1Addrs[n]
}

// f1NewNet creates n honest, non-stub routers. ianaSize(i) is the size of the
// single IANA entry in the router info of router i (0 = none).
func f1NewNet(t *testing.T, n int, ianaSize func(i int) int) *f1Net {
	t.Helper()
	sn := &f1Net{t: t}
	for i := 0; i < n; i++ {
		cfg := config.MakeTestConfig(config.Store{
			Router: config.Router{Universe: "test", UniverseSecret: "pw"},
			System: config.System{DisableTun: true},
		})
		if sz := ianaSize(i); sz > 0 {
			cfg.Router.IANA = []string{strings.Repeat("x", sz)}
		}
		inst := &f1Inst{cfg: cfg, id: f1Addr(t, i), builder: frame.NewFrameBuilder(), net: sn, idx: i, linksOut: map[int]*f1Link{}}
		// Same margins as mycoria.New sets for a real instance.
		inst.builder.SetFrameMargins(peering.FrameOffset, peering.FrameOverhead)
		inst.st = state.New(inst, nil)
		r, err := New(inst, Config{})
		if err != nil {
			t.Fatal(err)
		}
		inst.rt = r
		inst.sw = switchr.New(inst, r.Input())
		inst.pr = peering.New(inst, inst.sw.Input())
		sn.nodes = append(sn.nodes, inst)
	}
	return sn
}

func (sn *f1Net) connect(a, b int, labelAtA, labelAtB m.SwitchLabel) {
	na, nb := sn.nodes[a], sn.nodes[b]
	// Peers know each other's address from the peering handshake.
	if err := na.st.AddRouter(&nb.id.PublicAddress); err != nil {
		sn.t.Fatal(err)
	}
	if err := nb.st.AddRouter(&na.id.PublicAddress); err != nil {
		sn.t.Fatal(err)
	}
	lab := &f1Link{from: na, to: nb, label: labelAtA}
	lba := &f1Link{from: nb, to: na, label: labelAtB}
	if err := na.pr.AddLink(lab); err != nil {
		sn.t.Fatal(err)
	}
	if err := nb.pr.AddLink(lba); err != nil {
		sn.t.Fatal(err)
	}
	na.linksOut[b] = lab
	nb.linksOut[a] = lba
}

// drain delivers all in-flight frames in FIFO order until the network is quiet.
func (sn *f1Net) drain() {
	for len(sn.queue) > 0 {
		msg := sn.queue[0]
		sn.queue = sn.queue[1:]

		// Sender: peering.LinkBase.writeFrame.
		data, err := msg.f.FrameDataWithMargins(peering.FrameOffset, peering.FrameOverhead)
		if err != nil {
			// The real link writer logs "failed to write frame (non-fatal)" and drops the frame.
			sn.writeErrors = append(sn.writeErrors, fmt.Sprintf("%s: announcement of %s: %v", msg.link, msg.f.SrcIP(), err))
			continue
		}

		// Receiver: peering.LinkBase.readLengthAndData + readFrame.
		recv := msg.link.to
		ps := recv.builder.GetPooledSlice(len(data))
		copy(ps, data)
		wire := ps[:len(data)]
		rf, err := recv.builder.ParseFrame(wire[peering.FrameOffset:len(wire)-peering.FrameOverhead], wire[:cap(wire)], peering.FrameOffset)
		if err != nil {
			sn.t.Fatalf("parse: %v", err)
		}
		rf.SetRecvLink(recv.linksOut[msg.link.from.idx])
		msg.f.ReturnToPool()

		// Switch: frames from myself are ignored, frames without switch block are escalated to the router.
		if rf.SrcIP() == recv.id.IP {
			continue
		}
		_ = recv.rt.mgr.Do("deliver", func(w *mgr.WorkerCtx) error {
			if err := recv.rt.handleFrame(w, rf); err != nil {
				sn.t.Logf("%s: handle frame: %v", msg.link, err)
			}
			return nil
		})
	}
}

func (sn *f1Net) announce(i int) {
	n := sn.nodes[i]
	_ = n.rt.mgr.Do("announce", func(w *mgr.WorkerCtx) error {
		n.rt.announceRouter(w)
		return nil
	})
}

// TestC09ForwardedAnnouncementLostInMarginWindow: line A - B - C, all honest,
// non-stub, 1-byte labels. Only the size of A's router info varies.
// After everybody announced and the network drained, C must hold an exact
// route to A for every router info size.
func TestC09ForwardedAnnouncementLostInMarginWindow(t *testing.T) {
	slog.SetDefault(slog.New(slog.NewTextHandler(io.Discard, nil)))

	var failedSizes []int
	var sampleErr string
	for size := 1; size <= 400; size++ {
		sn := f1NewNet(t, 3, func(i int) int {
			if i == 0 {
				return size
			}
			return 0
		})
		sn.connect(0, 1, 11, 12)
		sn.connect(1, 2, 21, 22)
		for i := range sn.nodes {
			sn.announce(i)
		}
		sn.drain()

		a, c := sn.nodes[0], sn.nodes[2]
		rte, isDst := c.rt.table.LookupNearest(a.id.IP)
		if rte == nil || !isDst {
			failedSizes = append(failedSizes, size)
			if sampleErr == "" && len(sn.writeErrors) > 0 {
				sampleErr = sn.writeErrors[0]
			}
			continue
		}
		// Sanity: the other direction (small router info) always works.
		if rte, isDst := a.rt.table.LookupNearest(c.id.IP); rte == nil || !isDst {
			t.Errorf("size %d: A has no route to C", size)
		}
	}

	if len(failedSizes) > 0 {
		t.Fatalf("C09 violated: in the line A-B-C, router C holds NO exact route to A after all routers announced and the network drained, "+
			"for these sizes of A's router info IANA entry: %v\n"+
			"B accepted A's announcement and forwarded it, but the link writer dropped the forwarded frame: %s",
			failedSizes, sampleErr)
	}
}
