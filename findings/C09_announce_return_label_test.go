package router

// Demo for C09, finding 2: AnnouncePingHandler.Send(peer) puts the switch label
// of the link to `peer` into the announcement (msg.ReturnLabel), but
// sendPingMsg sends the frame (dst = m.RouterAddress) on ALL links.
// announceRouter calls Send once per link, so every link carries one
// announcement per link of the router, and all but one of them advertise the
// label of a different link. The route other routers derive from it (switch
// path incl. the size of the forward block) is built with the wrong label.
//
// The harness below wires real Router / Switch / Peering / State instances
// together with in-memory links. A link transfers a frame exactly like
// peering.LinkBase.writeFrame / readFrame do (minus the link encryption):
//   writer: data := f.FrameDataWithMargins(FrameOffset, FrameOverhead); on error the frame is dropped
//   reader: pooledSlice := GetPooledSlice(len(data)); ParseFrame(data[12:len-16], pooledSlice, 12)
// and hands the frame to the receiving router like switchr.handleFrame does
// for frames without switch block (escalate to router.handleFrame).

import (
	"context"
	"fmt"
	"io"
	"log/slog"
	"net"
	"net/netip"
	"strings"
	"testing"
	"time"

	"github.com/mycoria/mycoria/api/httpapi"
	"github.com/mycoria/mycoria/api/netstack"
	"github.com/mycoria/mycoria/config"
	"github.com/mycoria/mycoria/frame"
	"github.com/mycoria/mycoria/m"
	"github.com/mycoria/mycoria/mgr"
	"github.com/mycoria/mycoria/peering"
	"github.com/mycoria/mycoria/state"
	"github.com/mycoria/mycoria/switchr"
	"github.com/mycoria/mycoria/tun"
)

type f2Inst struct {
	cfg      *config.Config
	id       *m.Address
	builder  *frame.Builder
	st       *state.State
	sw       *switchr.Switch
	pr       *peering.Peering
	rt       *Router
	net      *f2Net
	idx      int
	linksOut map[int]*f2Link
}

func (i *f2Inst) Version() string               { return "v0.0.0" }
func (i *f2Inst) Config() *config.Config        { return i.cfg }
func (i *f2Inst) Identity() *m.Address          { return i.id }
func (i *f2Inst) FrameBuilder() *frame.Builder  { return i.builder }
func (i *f2Inst) State() *state.State           { return i.st }
func (i *f2Inst) NetStack() *netstack.NetStack  { return nil }
func (i *f2Inst) API() *httpapi.API             { return nil }
func (i *f2Inst) TunDevice() *tun.Device        { return nil }
func (i *f2Inst) Switch() *switchr.Switch       { return i.sw }
func (i *f2Inst) Peering() *peering.Peering     { return i.pr }
func (i *f2Inst) RoutingTable() *m.RoutingTable { return i.rt.Table() }

type f2Link struct {
	from, to *f2Inst
	label    m.SwitchLabel
}

var _ peering.Link = &f2Link{}

func (l *f2Link) String() string                              { return fmt.Sprintf("link %d->%d", l.from.idx, l.to.idx) }
func (l *f2Link) Peer() netip.Addr                            { return l.to.id.IP }
func (l *f2Link) SwitchLabel() m.SwitchLabel                  { return l.label }
func (l *f2Link) GeoMark() string                             { return "" }
func (l *f2Link) PeeringURL() *m.PeeringURL                   { return nil }
func (l *f2Link) Outgoing() bool                              { return true }
func (l *f2Link) Lite() bool                                  { return false }
func (l *f2Link) SendPriority(f frame.Frame) error            { return l.Send(f) }
func (l *f2Link) LocalAddr() net.Addr                         { return nil }
func (l *f2Link) RemoteAddr() net.Addr                        { return nil }
func (l *f2Link) Started() time.Time                          { return time.Time{} }
func (l *f2Link) Uptime() time.Duration                       { return 0 }
func (l *f2Link) Latency() uint16                             { return 5 }
func (l *f2Link) AddMeasuredLatency(latency time.Duration)    {}
func (l *f2Link) BytesIn() uint64                             { return 0 }
func (l *f2Link) BytesOut() uint64                            { return 0 }
func (l *f2Link) FlowControlIndicator() frame.FlowControlFlag { return 0 }
func (l *f2Link) IsClosing() bool                             { return false }
func (l *f2Link) Close(log func())                            {}
func (l *f2Link) Send(f frame.Frame) error {
	l.from.net.queue = append(l.from.net.queue, f2Msg{link: l, f: f})
	return nil
}

type f2Msg struct {
	link *f2Link
	f    frame.Frame
}

type f2Net struct {
	t           *testing.T
	nodes       []*f2Inst
	queue       []f2Msg
	writeErrors []string
}

var f2Addrs []*m.Address

func f2Addr(t *testing.T, n int) *m.Address {
	t.Helper()
	for len(f2Addrs) <= n {
		a, _, err := m.GenerateRoutableAddress(context.Background(), []netip.Prefix{m.RoutingAddressPrefix}, nil, 0)
		if err != nil {
			t.Fatal(err)
		}
		f2Addrs = append(f2Addrs, a)
	}
	return f2Addrs[n]
}

// f2NewNet creates n honest, non-stub routers. ianaSize(i) is the size of the
// single IANA entry in the router info of router i (0 = none).
func f2NewNet(t *testing.T, n int, ianaSize func(i int) int) *f2Net {
	t.Helper()
	sn := &f2Net{t: t}
	for i := 0; i < n; i++ {
		cfg := config.MakeTestConfig(config.Store{
			Router: config.Router{Universe: "test", UniverseSecret: "pw"},
			System: config.System{DisableTun: true},
		})
		if sz := ianaSize(i); sz > 0 {
			cfg.Router.IANA = []string{strings.Repeat("x", sz)}
		}
		inst := &f2Inst{cfg: cfg, id: f2Addr(t, i), builder: frame.NewFrameBuilder(), net: sn, idx: i, linksOut: map[int]*f2Link{}}
		// Same margins as mycoria.New sets for a real instance.
		inst.builder.SetFrameMargins(peering.FrameOffset, peering.FrameOverhead)
		inst.st = state.New(inst, nil)
		r, err := New(inst, Config{})
		if err != nil {
			t.Fatal(err)
		}
		inst.rt = r
		inst.sw = switchr.New(inst, r.Input())
		inst.pr = peering.New(inst, inst.sw.Input())
		sn.nodes = append(sn.nodes, inst)
	}
	return sn
}

func (sn *f2Net) connect(a, b int, labelAtA, labelAtB m.SwitchLabel) {
	na, nb := sn.nodes[a], sn.nodes[b]
	// Peers know each other's address from the peering handshake.
	if err := na.st.AddRouter(&nb.id.PublicAddress); err != nil {
		sn.t.Fatal(err)
	}
	if err := nb.st.AddRouter(&na.id.PublicAddress); err != nil {
		sn.t.Fatal(err)
	}
	lab := &f2Link{from: na, to: nb, label: labelAtA}
	lba := &f2Link{from: nb, to: na, label: labelAtB}
	if err := na.pr.AddLink(lab); err != nil {
		sn.t.Fatal(err)
	}
	if err := nb.pr.AddLink(lba); err != nil {
		sn.t.Fatal(err)
	}
	na.linksOut[b] = lab
	nb.linksOut[a] = lba
}

// drain delivers all in-flight frames in FIFO order until the network is quiet.
func (sn *f2Net) drain() {
	for len(sn.queue) > 0 {
		msg := sn.queue[0]
		sn.queue = sn.queue[1:]

		// Sender: peering.LinkBase.writeFrame.
		data, err := msg.f.FrameDataWithMargins(peering.FrameOffset, peering.FrameOverhead)
		if err != nil {
			// The real link writer logs "failed to write frame (non-fatal)" and drops the frame.
			sn.writeErrors = append(sn.writeErrors, fmt.Sprintf("%s: announcement of %s: %v", msg.link, msg.f.SrcIP(), err))
			continue
		}

		// Receiver: peering.LinkBase.readLengthAndData + readFrame.
		recv := msg.link.to
		ps := recv.builder.GetPooledSlice(len(data))
		copy(ps, data)
		wire := ps[:len(data)]
		rf, err := recv.builder.ParseFrame(wire[peering.FrameOffset:len(wire)-peering.FrameOverhead], wire[:cap(wire)], peering.FrameOffset)
		if err != nil {
			sn.t.Fatalf("parse: %v", err)
		}
		rf.SetRecvLink(recv.linksOut[msg.link.from.idx])
		msg.f.ReturnToPool()

		// Switch: frames from myself are ignored, frames without switch block are escalated to the router.
		if rf.SrcIP() == recv.id.IP {
			continue
		}
		_ = recv.rt.mgr.Do("deliver", func(w *mgr.WorkerCtx) error {
			if err := recv.rt.handleFrame(w, rf); err != nil {
				sn.t.Logf("%s: handle frame: %v", msg.link, err)
			}
			return nil
		})
	}
}

func (sn *f2Net) announce(i int) {
	n := sn.nodes[i]
	_ = n.rt.mgr.Do("announce", func(w *mgr.WorkerCtx) error {
		n.rt.announceRouter(w)
		return nil
	})
}

// f2Walk sends a frame with the route's forward block from router `from` and
// processes it on every hop exactly like switchr.Switch.handleFrame does:
//   nextHopLabel, err := m.NextRotateSwitchBlock(switchBlock, recvLink.SwitchLabel())
//   err != nil      -> frame is dropped ("rotate switch block: ...")
//   nextHopLabel==0 -> we are the destination
//   otherwise       -> ForwardByLabel(nextHopLabel)
// The originating router consumes its own first label with return label 0.
func f2Walk(from *f2Inst, rte *m.RoutingTableEntry) (arrivedAt *f2Inst, err error) {
	block := append([]byte(nil), rte.Path.ForwardBlock...)
	cur := from
	var recvLabel m.SwitchLabel // origin: no recv link.
	for steps := 0; steps < 64; steps++ {
		next, err := m.NextRotateSwitchBlock(block, recvLabel)
		if err != nil {
			return cur, fmt.Errorf("switch of router %d drops the frame: rotate switch block (size %d) with recv link label %d: %w", cur.idx, len(block), recvLabel, err)
		}
		if next == 0 {
			return cur, nil
		}
		l := cur.pr.GetLinkByLabel(next)
		if l == nil {
			return cur, fmt.Errorf("router %d: next hop unavailable for label %d", cur.idx, next)
		}
		prev := cur
		cur = l.(*f2Link).to
		recvLabel = cur.linksOut[prev.idx].label
	}
	return cur, fmt.Errorf("did not terminate")
}

// TestC09AnnouncedReturnLabelOfOtherLink:
//
//	H --(7)-- O --(300)-- L --- Z
//
// O labels its link to L with the 2-byte label 300 and its link to H with the
// 1-byte label 7 (H is the peer with the higher IP, i.e. the last one
// announceRouter sends for). All routers are honest and non-stub, every router
// announces itself once (announceRouter) and frames are delivered in FIFO order.
func TestC09AnnouncedReturnLabelOfOtherLink(t *testing.T) {
	slog.SetDefault(slog.New(slog.NewTextHandler(io.Discard, nil)))

	sn := f2NewNet(t, 4, func(i int) int { return 0 })
	o := 0
	l, h := 1, 2
	if sn.nodes[l].id.IP.Compare(sn.nodes[h].id.IP) > 0 {
		l, h = h, l
	}
	z := 3
	sn.connect(o, l, 300, 9)
	sn.connect(o, h, 7, 9)
	sn.connect(l, z, 20, 21)

	for i := range sn.nodes {
		sn.announce(i)
	}
	sn.drain()

	O := sn.nodes[o]
	for _, from := range []int{h, l, z} {
		N := sn.nodes[from]
		rte, isDst := N.rt.table.LookupNearest(O.id.IP)
		if rte == nil || !isDst {
			t.Fatalf("router %d has no exact route to O", from)
		}
		hops := rte.Path.Hops
		// The label O really uses for the link to the previous hop of this route.
		realLabel := O.pr.GetLink(hops[len(hops)-2].Router).SwitchLabel()
		announced := hops[len(hops)-1].ReturnLabel
		if announced != realLabel {
			t.Errorf("router %d: route to O carries return label %d for O, but O's link to the previous hop has label %d (that label belongs to O's link to another peer)",
				from, announced, realLabel)
		}
		arrived, err := f2Walk(N, rte)
		if err != nil {
			t.Errorf("C09 violated: router %d holds an exact route to O (forward block % x), but a frame following it over the real links is not delivered: %v",
				from, rte.Path.ForwardBlock, err)
		} else if arrived != O {
			t.Errorf("C09 violated: router %d: forward block leads to router %d instead of O", from, arrived.idx)
		}
	}
}

// TestC09AnnouncementSentOncePerLinkOnEveryLink: star with centre O and three
// peers. One announce round of O must put one announcement on each link
// (each loop-free path is travelled at most once).
func TestC09AnnouncementSentOncePerLinkOnEveryLink(t *testing.T) {
	slog.SetDefault(slog.New(slog.NewTextHandler(io.Discard, nil)))

	sn := f2NewNet(t, 4, func(i int) int { return 0 })
	sn.connect(0, 1, 1, 9)
	sn.connect(0, 2, 2, 9)
	sn.connect(0, 3, 3, 9)

	// A single Send for one peer already goes out on all links.
	if err := sn.nodes[0].rt.AnnouncePing.Send(sn.nodes[1].id.IP); err != nil {
		t.Fatal(err)
	}
	perPeer := map[int]int{}
	for _, msg := range sn.queue {
		perPeer[msg.link.to.idx]++
	}
	if perPeer[2] != 0 || perPeer[3] != 0 {
		t.Errorf("AnnouncePing.Send(peer 1) (carrying the return label of the link to peer 1) was also sent to other peers: frames per peer %v", perPeer)
	}
	sn.drain()

	// A full announce round.
	sn.announce(0)
	perPeer = map[int]int{}
	for _, msg := range sn.queue {
		if msg.f.SrcIP() == sn.nodes[0].id.IP && len(msg.f.AppendixData()) == 0 {
			perPeer[msg.link.to.idx]++
		}
	}
	for peer := 1; peer <= 3; peer++ {
		if perPeer[peer] != 1 {
			t.Errorf("one announce round of O put %d announcements on the direct path O -> %d, want 1", perPeer[peer], peer)
		}
	}
}
