package state

import (
	"crypto/ed25519"
	"encoding/json"
	"net/netip"
	"os"
	"path/filepath"
	"testing"
	"time"

	"github.com/mycoria/mycoria/m"
	"github.com/mycoria/mycoria/storage"
)

// C01: an identity loaded from storage must be accepted only if
// address == hash(key); otherwise no session or stored record may result.
//
// storage.NewJSONFileStorage unmarshals the router records of the state file
// straight into the router map and state.GetSession builds a session from
// whatever record it finds - VerifyAddress is never run on identities that are
// loaded from the state file. A record whose key does not hash to its address
// (or whose address is not even in fd00::/8) therefore yields a stored record
// and a session bound to the foreign key.
func TestC01HuntStateFileIdentityNotVerified(t *testing.T) {
	// A real identity (the victim's address).
	victim, _, err := m.GeneratePrivacyAddress(t.Context())
	if err != nil {
		t.Fatal(err)
	}
	// An unrelated key that does NOT hash to the victim's address.
	otherPub, _, err := ed25519.GenerateKey(nil)
	if err != nil {
		t.Fatal(err)
	}

	bad := map[string]*m.PublicAddress{
		"key does not match address": {
			IP: victim.IP, Hash: victim.Hash, Type: victim.Type, PublicKey: otherPub,
		},
		"address outside fd00::/8, unknown hash and key type, odd key size": {
			IP: netip.MustParseAddr("2001:db8::1"), Hash: "NOPE", Type: "RSA", PublicKey: otherPub[:7],
		},
	}

	for name, addr := range bad {
		t.Run(name, func(t *testing.T) {
			if err := addr.VerifyAddress(); err == nil {
				t.Fatal("test setup broken: identity unexpectedly valid")
			}

			// Write state file in the format JSONFileStorage.Stop() writes.
			data, err := json.Marshal(&storage.JSONStorageFormat{
				Routers: map[netip.Addr]*storage.StoredRouter{
					addr.IP: {Address: addr, CreatedAt: time.Now(), UpdatedAt: time.Now()},
				},
			})
			if err != nil {
				t.Fatal(err)
			}
			file := filepath.Join(t.TempDir(), "state.json")
			if err := os.WriteFile(file, data, 0o600); err != nil {
				t.Fatal(err)
			}

			// Load like instance.New does.
			store, err := storage.NewJSONFileStorage(file)
			if err != nil {
				t.Logf("rejected on load (fine): %v", err)
				return
			}
			st := New(nil, store)

			if rec, err := store.GetRouter(addr.IP); err == nil && rec != nil {
				t.Errorf("stored record for %s with invalid identity survived loading (VerifyAddress: %v)",
					addr.IP, rec.Address.VerifyAddress())
			}
			if s := st.GetSession(addr.IP); s != nil {
				t.Errorf("session for %s created from unverified identity; session key %x, VerifyAddress: %v",
					addr.IP, s.Address().PublicKey, s.Address().VerifyAddress())
			}
		})
	}
}
