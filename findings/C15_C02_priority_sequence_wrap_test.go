package frame

import (
	"bytes"
	"context"
	"testing"

	"github.com/mycoria/mycoria/config"
	"github.com/mycoria/mycoria/m"
	"github.com/mycoria/mycoria/state"
)

// huntC02f2Inst is a minimal instance for state.New.
type huntC02f2Inst struct {
	id  *m.Address
	cfg *config.Config
}

func (i *huntC02f2Inst) Identity() *m.Address   { return i.id }
func (i *huntC02f2Inst) Config() *config.Config { return i.cfg }

// huntC02f2Pair returns the session router A holds for B (sAB) and the session
// router B holds for A (sBA), with encryption keys exchanged.
func huntC02f2Pair(t *testing.T) (sAB, sBA *state.Session) {
	t.Helper()
	ctx := context.Background()
	a, _, err := m.GeneratePrivacyAddress(ctx)
	if err != nil {
		t.Fatal(err)
	}
	b, _, err := m.GeneratePrivacyAddress(ctx)
	if err != nil {
		t.Fatal(err)
	}
	stA := state.New(&huntC02f2Inst{id: a, cfg: &config.Config{}}, nil)
	stB := state.New(&huntC02f2Inst{id: b, cfg: &config.Config{}}, nil)
	if err := stA.AddRouter(&b.PublicAddress); err != nil {
		t.Fatal(err)
	}
	if err := stB.AddRouter(&a.PublicAddress); err != nil {
		t.Fatal(err)
	}
	sAB = stA.GetSession(b.IP)
	sBA = stB.GetSession(a.IP)
	if sAB == nil || sBA == nil {
		t.Fatal("no session")
	}
	k1, t1, err := sAB.Encryption().InitKeyClientStart()
	if err != nil {
		t.Fatal(err)
	}
	k2, t2, err := sBA.Encryption().InitKeyServer(k1, t1)
	if err != nil {
		t.Fatal(err)
	}
	if err := sAB.Encryption().InitKeyClientComplete(k2, t2); err != nil {
		t.Fatal(err)
	}
	return sAB, sBA
}

// huntC02f2Seal builds and seals a frame at A and returns the bytes on the wire.
func huntC02f2Seal(t *testing.T, bld *Builder, sAB, sBA *state.Session, mt MessageType, payload []byte) []byte {
	t.Helper()
	// sBA.For() is A's address, sAB.For() is B's address.
	f, err := bld.NewFrameV1(sBA.For(), sAB.For(), mt, []byte{1, 2, 3}, payload, nil)
	if err != nil {
		t.Fatal(err)
	}
	if err := f.Seal(sAB); err != nil {
		t.Fatalf("seal %s at A: %s", mt, err)
	}
	wire := append([]byte(nil), f.data...)
	f.ReturnToPool()
	return wire
}

// huntC02f2Unseal parses and unseals wire bytes at B.
func huntC02f2Unseal(bld *Builder, sBA *state.Session, wire []byte) ([]byte, error) {
	f, err := bld.ParseFrame(append([]byte(nil), wire...), nil, 0)
	if err != nil {
		return nil, err
	}
	if err := f.Unseal(sBA); err != nil {
		return nil, err
	}
	return append([]byte(nil), f.MessageData()...), nil
}

// The history: A's priority sequence reaches the end of the sequence space
// (no regular-class key rollover happened in between, e.g. a router-to-router
// session that only carries RouterCtrl/SessionCtrl frames).
// SequenceHandler.NextOut reports the rollover exactly once ("the rollover must be
// executed") and already advances the counter to 1. EncryptionSession.Out returns
// an error for the priority class WITHOUT executing the rollover, so only this one
// Seal fails. Every later Seal of a priority frame succeeds again (seq 2, 3, ...,
// same key), but B - whose priority window is at 0xFFFF_FFFF - refuses all of them
// (In: "prio sequence handler requested key rollover", later Check: delayed frame).
// So frames that A sealed successfully for B never unseal at B.
func TestHuntC02PrioSequenceWrapSealsFramesReceiverRefuses(t *testing.T) {
	payload := []byte("payload that must round trip")
	bld := NewFrameBuilder()
	sAB, sBA := huntC02f2Pair(t)
	hA := state.EncryptionSessionTestHelper{EncryptionSession: sAB.Encryption()}

	// Priority traffic has brought A's priority sequence to 0xFFFF_FFFE.
	hA.PrioSetOut(0xFFFF_FFFE)
	w := huntC02f2Seal(t, bld, sAB, sBA, SessionCtrl, payload) // seq 0xFFFF_FFFF
	if got, err := huntC02f2Unseal(bld, sBA, w); err != nil || !bytes.Equal(got, payload) {
		t.Fatalf("frame with seq 0xFFFFFFFF did not round trip: %v", err)
	}

	// The next Seal hits the wrap and fails (nothing is sent) - acceptable on its own.
	f, err := bld.NewFrameV1(sBA.For(), sAB.For(), SessionCtrl, nil, payload, nil)
	if err != nil {
		t.Fatal(err)
	}
	err = f.Seal(sAB)
	t.Logf("Seal at the wrap: %v", err)
	if err == nil {
		if _, err := huntC02f2Unseal(bld, sBA, append([]byte(nil), f.data...)); err != nil {
			t.Errorf("frame sealed at the wrap does not unseal: %s", err)
		}
	}

	// All following Seals succeed - and every one of the frames is refused by B.
	for i := 0; i < 300; i++ {
		mt := SessionCtrl
		if i%2 == 1 {
			mt = RouterCtrl
		}
		f, err := bld.NewFrameV1(sBA.For(), sAB.For(), mt, nil, payload, nil)
		if err != nil {
			t.Fatal(err)
		}
		if err := f.Seal(sAB); err != nil {
			t.Logf("Seal #%d after the wrap failed (no frame sent): %s", i, err)
			continue
		}
		seq := f.SequenceNum()
		wire := append([]byte(nil), f.data...)
		f.ReturnToPool()
		got, err := huntC02f2Unseal(bld, sBA, wire)
		switch {
		case err != nil:
			if i < 3 || i == 299 {
				t.Errorf("%s frame #%d (seq %d) was sealed by A for B without error but does not unseal at B: %s", mt, i, seq, err)
			} else {
				t.Fail()
			}
		case !bytes.Equal(got, payload):
			t.Errorf("payload mismatch")
		}
	}
}
