package frame

import (
	"context"
	"testing"

	"github.com/mycoria/mycoria/config"
	"github.com/mycoria/mycoria/m"
	"github.com/mycoria/mycoria/state"
)

// c03NewSessions returns a fresh, keyed pair of sessions (s1 = sender side,
// s2 = receiver side), independent from the shared test sessions.
func c03NewSessions(t *testing.T) (s1, s2 *state.Session) {
	t.Helper()
	ctx := context.Background()
	a1, _, err := m.GeneratePrivacyAddress(ctx)
	if err != nil {
		t.Fatal(err)
	}
	a2, _, err := m.GeneratePrivacyAddress(ctx)
	if err != nil {
		t.Fatal(err)
	}
	st := state.New(&instanceStub{IdentityStub: a1, ConfigStub: &config.Config{}}, nil)
	if err := st.AddRouter(&a1.PublicAddress); err != nil {
		t.Fatal(err)
	}
	if err := st.AddRouter(&a2.PublicAddress); err != nil {
		t.Fatal(err)
	}
	s1, s2 = st.GetSession(a1.IP), st.GetSession(a2.IP)
	k1, t1, err := s1.Encryption().InitKeyClientStart()
	if err != nil {
		t.Fatal(err)
	}
	k2, t2, err := s2.Encryption().InitKeyServer(k1, t1)
	if err != nil {
		t.Fatal(err)
	}
	if err := s1.Encryption().InitKeyClientComplete(k2, t2); err != nil {
		t.Fatal(err)
	}
	return s1, s2
}

func c03Sealed(t *testing.T, b *Builder, s1, s2 *state.Session, mt MessageType) *FrameV1 {
	t.Helper()
	f, err := b.NewFrameV1(s1.Address().IP, s2.Address().IP, mt, nil, testData, nil)
	if err != nil {
		t.Fatal(err)
	}
	if err := f.Seal(s1); err != nil {
		t.Fatalf("seal: %s", err)
	}
	return f
}

// c03UnsealBegin runs the first part of FrameV1.Unseal for an encrypted frame
// (statement by statement the code of Unseal): pick the cipher via
// EncryptionSession.In and AEAD-open the frame. It returns the second part:
// EncryptionSession.Check.
// The router runs runtime.NumCPU() frameHandler workers that call Unseal on the
// same session concurrently, so another Unseal may run between the two parts:
// In/decrypt and Check are not one atomic step.
func c03UnsealBegin(t *testing.T, f *FrameV1, s *state.Session) (finish func() error) {
	t.Helper()
	prio := f.MessageType().Class() == MessageClassPriorityEncrypted
	done := f.putFieldsIntoCryptoState()
	seqNum := f.SequenceNum()
	c, err := s.Encryption().In(seqNum, prio)
	if err != nil {
		t.Fatalf("in: %s", err)
	}
	if err := f.decryptFrame(c); err != nil {
		t.Fatalf("decrypt: %s", err)
	}
	return func() error {
		defer done()
		return s.Encryption().Check(seqNum, prio)
	}
}

// Priority class: a priority frame is accepted twice when the duplicate is
// in between decrypt and Check while a regular frame rolls the incoming key over
// (the rollover resets the priority receive window).
func TestC03PrioFrameAcceptedTwiceAcrossKeyRollover(t *testing.T) {
	b := NewFrameBuilder()
	s1, s2 := c03NewSessions(t)
	e1h := state.EncryptionSessionTestHelper{EncryptionSession: s1.Encryption()}

	// Sender is two frames before the end of the regular sequence.
	e1h.ReglSetOut(0xFFFF_FFFF - 2)
	r0 := c03Sealed(t, b, s1, s2, NetworkTraffic) // seq 0xFFFFFFFE, old key
	if err := r0.Unseal(s2); err != nil {
		t.Fatal(err)
	}

	// Priority frame P (prio seq 1, old key); the attacker keeps a copy.
	p := c03Sealed(t, b, s1, s2, SessionCtrl)
	pDup := p.Clone().(*FrameV1) //nolint:forcetypeassert
	if err := p.Unseal(s2); err != nil {
		t.Fatalf("first delivery of P must be accepted: %s", err)
	}

	// Sender continues: seq 0xFFFFFFFF (old key), then rolls over: seq 1 (new key).
	_ = c03Sealed(t, b, s1, s2, NetworkTraffic)
	r2 := c03Sealed(t, b, s1, s2, NetworkTraffic)
	if r2.SequenceNum() != 1 {
		t.Fatalf("setup: expected seq 1 after rollover, got %d", r2.SequenceNum())
	}

	// Worker A starts to unseal the duplicate of P ...
	finishDup := c03UnsealBegin(t, pDup, s2)
	// ... worker B unseals the first frame with the new key ...
	if err := r2.Unseal(s2); err != nil {
		t.Fatalf("rollover frame must be accepted: %s", err)
	}
	// ... worker A finishes.
	if err := finishDup(); err == nil {
		t.Fatal("C03 violated: priority frame P (prio seq 1) unsealed successfully a second time")
	}
}

// Regular class: same schedule with a duplicate of a regular frame of the old key.
// The duplicate is accepted a second time and additionally drags the receive
// window back to the end of the old sequence, after which no frame of the
// sender is accepted any more.
func TestC03ReglFrameAcceptedTwiceAcrossKeyRollover(t *testing.T) {
	b := NewFrameBuilder()
	s1, s2 := c03NewSessions(t)
	e1h := state.EncryptionSessionTestHelper{EncryptionSession: s1.Encryption()}

	e1h.ReglSetOut(0xFFFF_FFFF - 2)
	x := c03Sealed(t, b, s1, s2, NetworkTraffic) // seq 0xFFFFFFFE, old key
	xDup := x.Clone().(*FrameV1)                 //nolint:forcetypeassert
	if err := x.Unseal(s2); err != nil {
		t.Fatalf("first delivery of X must be accepted: %s", err)
	}
	_ = c03Sealed(t, b, s1, s2, NetworkTraffic)   // seq 0xFFFFFFFF, lost
	r1 := c03Sealed(t, b, s1, s2, NetworkTraffic) // seq 1, new key
	r2 := c03Sealed(t, b, s1, s2, NetworkTraffic) // seq 2, new key

	finishDup := c03UnsealBegin(t, xDup, s2)
	if err := r1.Unseal(s2); err != nil {
		t.Fatalf("rollover frame must be accepted: %s", err)
	}
	dupErr := finishDup()
	nextErr := r2.Unseal(s2)
	if dupErr == nil {
		t.Errorf("C03 violated: regular frame X (seq 0xFFFFFFFE) unsealed successfully a second time")
	}
	if nextErr != nil {
		t.Errorf("C03 violated: new, non-duplicate frame seq 2 rejected afterwards: %s", nextErr)
	}
}
