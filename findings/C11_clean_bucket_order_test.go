package m

import (
	"net/netip"
	"testing"
	"time"
)

// sortForCleaning orders two entries with different routing prefixes by the
// prefix base address only. The routing prefixes fd17::/18 (the router's own
// country prefix, CH) and fd17::/16 (region prefix of the rest of fd17::/16)
// have the same base address, so entries of both compare as "equal" and end
// up interleaved. The trimming pass in Clean restarts its per-prefix counter
// whenever the routing prefix changes, so with interleaved buckets it never
// reaches the limit and nothing is trimmed.
func TestC11CleanBucketsInterleave(t *testing.T) {
	routerIP := netip.MustParseAddr("fd17:1::1")
	marker, err := LookupCountryMarker(routerIP)
	if err != nil {
		t.Fatal(err)
	}
	ownPrefix := marker.Prefix // fd17::/18
	if ownPrefix != netip.MustParsePrefix("fd17::/18") {
		t.Fatalf("unexpected country prefix %s", ownPrefix)
	}
	// Exactly what router.New does.
	tbl := NewRoutingTable(RoutingTableConfig{
		RoutablePrefixes: GetRoutablePrefixesFor(routerIP, ownPrefix),
		RouterIP:         routerIP,
	})

	peer := netip.MustParseAddr("fd17:1::2")
	if added, err := tbl.AddRoute(RoutingTableEntry{DstIP: peer, NextHop: peer, Source: RouteSourcePeer}); err != nil || !added {
		t.Fatalf("add peer: %v %v", added, err)
	}

	addGossip := func(dst netip.Addr, relays int, delay uint16) {
		t.Helper()
		hops := []SwitchHop{
			{Router: routerIP, Delay: delay, ForwardLabel: 5},
			{Router: peer, Delay: 10, ForwardLabel: 6, ReturnLabel: 7},
		}
		for r := 1; r < relays; r++ {
			hops = append(hops, SwitchHop{
				Router:       netip.AddrFrom16([16]byte{0xfd, 0x31, 0, 0, 0, 0, 0, 0, 0, 0, 0, 0, 0, 0, 0, byte(r)}),
				Delay:        10,
				ForwardLabel: 6, ReturnLabel: 7,
			})
		}
		hops = append(hops, SwitchHop{Router: dst, ReturnLabel: 8})
		added, err := tbl.AddRoute(RoutingTableEntry{
			DstIP:   dst,
			NextHop: peer,
			Path:    SwitchPath{Hops: hops},
			Source:  RouteSourceGossip,
			Expires: time.Now().Add(time.Hour),
		})
		if err != nil || !added {
			t.Fatalf("add gossip %s: %v %v", dst, added, err)
		}
	}

	// 100 gossip destinations in the rest of the region, routing prefix fd17::/16
	// (added first: the admission check for fd17::/16 also counts fd17::/18 entries).
	for i := 1; i <= 100; i++ {
		dst := netip.AddrFrom16([16]byte{0xfd, 0x17, 0x40, 0, 0, 0, 0, 0, 0, 0, 0, 0, 0, 0, 0, byte(i)})
		addGossip(dst, 1+i%3, uint16(10+i%7))
	}

	// 1100 gossip destinations in the own prefix fd17::/18 (limit 1024,
	// admission allows up to 2049).
	ownLimit := 0
	for i := 1; i <= 1100; i++ {
		dst := netip.AddrFrom16([16]byte{0xfd, 0x17, 0x20, 0, 0, 0, 0, 0, 0, 0, 0, 0, 0, 0, byte(i >> 8), byte(i)})
		rp, _ := tbl.getRoutablePrefixConfig(dst)
		ownLimit = rp.EntriesPerPrefix
		addGossip(dst, 1+i%3, uint16(10+i%7))
	}
	if ownLimit != 1024 {
		t.Fatalf("expected own prefix limit 1024, got %d", ownLimit)
	}
	count := func() (n int) {
		for _, rte := range tbl.entries {
			if rte.Source == RouteSourceGossip && rte.RoutingPrefix == ownPrefix {
				n++
			}
		}
		return n
	}
	if n := count(); n != 1100 {
		t.Fatalf("expected 1100 gossip routes in %s before cleaning, got %d", ownPrefix, n)
	}

	// Show the bucket order Clean works on.
	tbl.sortForCleaning()
	changes := 0
	for i := 1; i < len(tbl.entries); i++ {
		if tbl.entries[i].RoutingPrefix != tbl.entries[i-1].RoutingPrefix {
			changes++
		}
	}
	tbl.sortForRouting()
	t.Logf("bucket sort: routing prefix changes %d times over %d entries with 2 distinct routing prefixes", changes, len(tbl.entries))

	tbl.Clean()

	if n := count(); n > ownLimit {
		t.Fatalf("after Clean, routing prefix %s still holds %d gossip routes, limit is %d", ownPrefix, n, ownLimit)
	}
}
