package m

import (
	"net/netip"
	"testing"
)

// C01: every identity the generator returns must pass VerifyAddress (address
// in fd00::/8 and equal to the digest of the key) and must reload from its
// stored form, for all acceptable/ignored prefix sets given to the generator.
//
// tryToGenerateAddress only checks InternalPrefix, the ignored prefixes and
// the acceptable prefixes; it never checks BaseNetPrefix (fd00::/8). When an
// acceptable prefix is not contained in fd00::/8, the generator happily
// returns an "identity" that its own VerifyAddress / AddressFromStorage reject.
func TestC01HuntGeneratorReturnsIdentityOutsideBaseNet(t *testing.T) {
	for _, prefix := range []netip.Prefix{
		netip.MustParsePrefix("fc00::/8"), // the other half of the ULA range fc00::/7
		netip.MustParsePrefix("2000::/3"), // global unicast
	} {
		addr, _, err := GenerateRoutableAddress(t.Context(), []netip.Prefix{prefix}, CommonConflictingPrefixes, 0)
		if err != nil {
			// Refusing to generate would be fine.
			t.Logf("%s: generator refused: %v", prefix, err)
			continue
		}
		if !prefix.Contains(addr.IP) {
			t.Errorf("%s: generated %s not in requested prefix", prefix, addr.IP)
		}
		if err := addr.VerifyAddress(); err != nil {
			t.Errorf("%s: generator returned identity %s that fails VerifyAddress: %v", prefix, addr.IP, err)
		}
		if _, err := AddressFromStorage(addr.Store()); err != nil {
			t.Errorf("%s: generated identity %s does not reload from its stored form: %v", prefix, addr.IP, err)
		}
	}
}
