package mycoria

import (
	"context"
	"fmt"
	"io"
	"net"
	"net/netip"
	"sync/atomic"
	"testing"
	"time"

	"github.com/mycoria/mycoria/config"
	"github.com/mycoria/mycoria/m"
)

// TestC20FailedLinkSetupCausesReconnectStorm shows that a relay-only router
// does not run cleanly when the peering handshake with a configured
// router.connect peer fails (here: the two routers are in different
// universes). The connect manager is designed to retry once per second for
// the first 10 seconds, then every 5 seconds, then once per minute. But the
// failed, never registered link is closed via link.Close(), which calls
// Peering.RemoveLink(), which triggers peering whenever the link count is
// zero - which it still is. The connect manager therefore immediately retries,
// fails, and triggers itself again: a busy loop that opens thousands of TCP
// connections per second against the peer, without any backoff.
func TestC20FailedLinkSetupCausesReconnectStorm(t *testing.T) {
	freePort := func() int {
		probe, err := net.Listen("tcp", "127.0.0.1:0")
		if err != nil {
			t.Fatal(err)
		}
		defer probe.Close() //nolint:errcheck
		return probe.Addr().(*net.TCPAddr).Port
	}
	makeConfig := func(universe string, listen, connect []string) *config.Config {
		prefix, err := m.GetCountryPrefix("AT")
		if err != nil {
			t.Fatal(err)
		}
		id, _, err := m.GenerateRoutableAddress(context.Background(), []netip.Prefix{prefix}, nil, 0)
		if err != nil {
			t.Fatal(err)
		}
		c, err := config.Store{
			Router: config.Router{
				Address:  id.Store(),
				Universe: universe,
				Listen:   listen,
				Connect:  connect,
			},
			System: config.System{DisableTun: true},
		}.Parse()
		if err != nil {
			t.Fatal(err)
		}
		return c
	}

	// Router A listens on a free loopback port.
	portA := freePort()
	addrA := fmt.Sprintf("127.0.0.1:%d", portA)

	// A transparent TCP forwarder in front of router A counts the connection
	// attempts made by router B.
	proxy, err := net.Listen("tcp", "127.0.0.1:0")
	if err != nil {
		t.Fatal(err)
	}
	defer proxy.Close() //nolint:errcheck
	var attempts atomic.Int64
	go func() {
		for {
			in, err := proxy.Accept()
			if err != nil {
				return
			}
			attempts.Add(1)
			go func() {
				defer in.Close() //nolint:errcheck
				out, err := net.Dial("tcp", addrA)
				if err != nil {
					return
				}
				defer out.Close() //nolint:errcheck
				go func() {
					_, _ = io.Copy(out, in)
					_ = out.Close()
				}()
				_, _ = io.Copy(in, out)
			}()
		}
	}()

	// Two valid relay-only routers in different universes.
	a, err := New("test", makeConfig("alpha", []string{"tcp://" + addrA}, nil))
	if err != nil {
		t.Fatal(err)
	}
	b, err := New("test", makeConfig("beta", nil, []string{"tcp://" + proxy.Addr().String()}))
	if err != nil {
		t.Fatal(err)
	}
	if err := a.Start(); err != nil {
		t.Fatal(err)
	}
	defer a.Stop()
	// Wait for listener of A.
	for i := 0; i < 100; i++ {
		conn, err := net.Dial("tcp", addrA)
		if err == nil {
			_ = conn.Close()
			break
		}
		time.Sleep(50 * time.Millisecond)
	}
	if err := b.Start(); err != nil {
		t.Fatal(err)
	}
	defer b.Stop()

	// Let router B run for 3 seconds.
	time.Sleep(3 * time.Second)
	got := attempts.Load()

	// By design, the connect manager checks once on start and then once per
	// second while there are no links: about 4 attempts in 3 seconds.
	if got > 10 {
		t.Fatalf("router B made %d connection attempts within 3 seconds, expected about 4 (one per second)", got)
	}
}
