package m

import (
	"encoding/binary"
	"fmt"
	"testing"
)

// TestHuntGetDataBlockHugeLength feeds GetDataBlock length prefixes that do not
// fit into an int. The function must return an error, but panics instead,
// because it bounds-checks the number of varint bytes (n) instead of the
// decoded length (number).
func TestHuntGetDataBlockHugeLength(t *testing.T) {
	for _, length := range []uint64{
		0xFFFF_FFFF_FFFF_FFFF, // int(-1)
		0x8000_0000_0000_0000, // math.MinInt64
		0x7FFF_FFFF_FFFF_FFFF, // math.MaxInt64: n+length overflows
	} {
		data := make([]byte, 32)
		binary.PutUvarint(data, length)

		func() {
			defer func() {
				if r := recover(); r != nil {
					t.Errorf("GetDataBlock panicked for length prefix %#x: %s", length, fmt.Sprint(r))
				}
			}()
			n, block, err := GetDataBlock(data)
			if err == nil {
				t.Errorf("GetDataBlock accepted length prefix %#x: n=%d len(block)=%d", length, n, len(block))
			}
		}()
	}
}
