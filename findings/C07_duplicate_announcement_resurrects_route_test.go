package router

import (
	"context"
	"net"
	"net/netip"
	"strings"
	"testing"
	"time"

	"github.com/fxamacker/cbor/v2"

	"github.com/mycoria/mycoria/api/httpapi"
	"github.com/mycoria/mycoria/api/netstack"
	"github.com/mycoria/mycoria/config"
	"github.com/mycoria/mycoria/frame"
	"github.com/mycoria/mycoria/m"
	"github.com/mycoria/mycoria/mgr"
	"github.com/mycoria/mycoria/peering"
	"github.com/mycoria/mycoria/state"
	"github.com/mycoria/mycoria/switchr"
	"github.com/mycoria/mycoria/tun"
)

// ---- minimal harness (hunt C07, finding 1) ----

type c07f1Instance struct {
	cfg *config.Config
	id  *m.Address
	fb  *frame.Builder
	st  *state.State
}

func (i *c07f1Instance) Version() string              { return "v0.0.0-test" }
func (i *c07f1Instance) Config() *config.Config       { return i.cfg }
func (i *c07f1Instance) Identity() *m.Address         { return i.id }
func (i *c07f1Instance) FrameBuilder() *frame.Builder { return i.fb }
func (i *c07f1Instance) State() *state.State          { return i.st }
func (i *c07f1Instance) NetStack() *netstack.NetStack { return nil }
func (i *c07f1Instance) API() *httpapi.API            { return nil }
func (i *c07f1Instance) TunDevice() *tun.Device       { return nil }
func (i *c07f1Instance) Switch() *switchr.Switch      { return nil }
func (i *c07f1Instance) Peering() *peering.Peering    { return nil }

type c07f1Link struct {
	peer  netip.Addr
	label m.SwitchLabel
}

func (l *c07f1Link) String() string                              { return "testlink " + l.peer.String() }
func (l *c07f1Link) Peer() netip.Addr                            { return l.peer }
func (l *c07f1Link) SwitchLabel() m.SwitchLabel                  { return l.label }
func (l *c07f1Link) PeeringURL() *m.PeeringURL                   { return nil }
func (l *c07f1Link) Outgoing() bool                              { return false }
func (l *c07f1Link) SendPriority(f frame.Frame) error            { return nil }
func (l *c07f1Link) Send(f frame.Frame) error                    { return nil }
func (l *c07f1Link) LocalAddr() net.Addr                         { return nil }
func (l *c07f1Link) RemoteAddr() net.Addr                        { return nil }
func (l *c07f1Link) Latency() uint16                             { return 7 }
func (l *c07f1Link) FlowControlIndicator() frame.FlowControlFlag { return 0 }
func (l *c07f1Link) IsClosing() bool                             { return false }

func c07f1Addr(t *testing.T) *m.Address {
	t.Helper()
	a, _, err := m.GenerateRoutableAddress(context.Background(), []netip.Prefix{m.RoutingAddressPrefix}, nil, 0)
	if err != nil {
		t.Fatal(err)
	}
	return a
}

func c07f1Router(t *testing.T) *Router {
	t.Helper()
	cfg := &config.Config{}
	cfg.Router.Stub = true // do not forward (no peering/switch in this harness)
	cfg.Router.Universe = "test"
	inst := &c07f1Instance{cfg: cfg, id: c07f1Addr(t), fb: frame.NewFrameBuilder()}
	inst.st = state.New(inst, nil)
	r, err := New(inst, Config{})
	if err != nil {
		t.Fatal(err)
	}
	return r
}

// c07f1Ping builds a raw-signed broadcast ping exactly as sendPingMsg does for
// an unknown destination (m.RouterAddress).
func c07f1Ping(t *testing.T, fb *frame.Builder, from *m.Address, msgType frame.MessageType, pingType string, body any, seq time.Time) frame.Frame {
	t.Helper()
	data, err := cbor.Marshal(body)
	if err != nil {
		t.Fatal(err)
	}
	hdr := PingHeader{
		PingID:    newPingID(),
		PingType:  pingType,
		AddrHash:  from.Hash,
		KeyType:   from.Type,
		PublicKey: from.PublicKey,
	}
	hdrData, err := cbor.Marshal(&hdr)
	if err != nil {
		t.Fatal(err)
	}
	frameData := make([]byte, 2+len(hdrData)+len(data))
	frameData[0] = 1
	frameData[1] = uint8(len(hdrData))
	copy(frameData[2:], hdrData)
	copy(frameData[2+len(hdrData):], data)

	f, err := fb.NewFrameV1(from.IP, m.RouterAddress, msgType, nil, frameData, nil)
	if err != nil {
		t.Fatal(err)
	}
	f.SetTTL(0)
	f.SetSequenceTime(seq)
	if err := f.SignRaw(from.PrivateKey); err != nil {
		t.Fatal(err)
	}
	f.SetTTL(32)
	return f
}

// c07f1Attach adds the (genuinely signed) forwarding attachment of router "via".
func c07f1Attach(t *testing.T, r *Router, f frame.Frame, via *m.Address) {
	t.Helper()
	attach := AnnouncePingAttachment{
		Router:       via.PublicAddress,
		Delay:        3,
		ForwardLabel: 11,
		ReturnLabel:  12,
	}
	attachData, err := cbor.Marshal(attach)
	if err != nil {
		t.Fatal(err)
	}
	sig, err := via.SignWithContext(attachData, r.AnnouncePing.signingContext(f))
	if err != nil {
		t.Fatal(err)
	}
	if err := f.SetAppendixData(append(attachData, sig...)); err != nil {
		t.Fatal(err)
	}
}

func c07f1Deliver(t *testing.T, r *Router, f frame.Frame, from netip.Addr) error {
	t.Helper()
	c := f.Clone() // byte-identical copy, as an on-wire replay would be
	c.SetRecvLink(&c07f1Link{peer: from, label: 5})
	var herr error
	_ = mgr.New("test").Do("deliver", func(w *mgr.WorkerCtx) error {
		herr = r.handlePing(w, c)
		return nil
	})
	return herr
}

func c07f1Routes(r *Router, dst netip.Addr) int {
	return strings.Count(r.table.Format(), dst.StringExpanded())
}

// TestC07ReplayedAnnounceResurrectsRemovedRoute:
//  1. X announces itself, announcement is forwarded to us by our peer Z -> route X via Z.
//  2. Z sends a (genuine) disconnect ping -> every route containing Z is removed.
//  3. The byte-identical announcement frame of step 1 is replayed.
//
// The replay is the "exact duplicate of the newest announcement" of X (X sent
// nothing in between), so parsePingMsg tolerates ErrImmediateDuplicateFrame.
// C07 demands that such a duplicate leaves the routing table unchanged, but the
// handler runs in full and AddRoute re-creates the removed route.
func TestC07ReplayedAnnounceResurrectsRemovedRoute(t *testing.T) {
	r := c07f1Router(t)
	x := c07f1Addr(t) // announcing router
	z := c07f1Addr(t) // our peer, forwards X's announcement
	fb := frame.NewFrameBuilder()

	now := time.Now()
	seq := now.Round(state.DefaultPrecision).Add(-state.DefaultPrecision)

	// Step 1: announcement of X, forwarded by Z.
	ann := c07f1Ping(t, fb, x, frame.RouterHopPingDeprecated, announcePingType, &AnnouncePingMsg{
		Info:        &m.RouterInfo{Version: "v1"},
		ReturnLabel: 9,
		Expires:     now.Add(announceInterval*2 + 10*time.Second),
	}, seq)
	c07f1Attach(t, r, ann, z)
	if err := c07f1Deliver(t, r, ann, z.IP); err != nil {
		t.Fatalf("genuine announcement rejected: %v", err)
	}
	if n := c07f1Routes(r, x.IP); n != 1 {
		t.Fatalf("setup: expected 1 route to X after announcement, have %d", n)
	}

	// Step 2: Z disconnects (genuine, signed by Z).
	disc := c07f1Ping(t, fb, z, frame.RouterPing, disconnectPingType, &DisconnectPingMsg{GoingDown: true}, seq)
	if err := c07f1Deliver(t, r, disc, z.IP); err != nil {
		t.Fatalf("genuine disconnect rejected: %v", err)
	}
	if n := c07f1Routes(r, x.IP); n != 0 {
		t.Fatalf("setup: expected route via Z to be removed by Z's disconnect, have %d", n)
	}
	before := r.table.Format()

	// Step 3: replay the byte-identical announcement of step 1.
	err := c07f1Deliver(t, r, ann, z.IP)
	after := r.table.Format()
	if before != after {
		t.Fatalf("C07 violated: replayed duplicate announcement (handlePing err=%v) changed the routing table\n--- before replay:\n%s--- after replay:\n%s", err, before, after)
	}
}
