package storage

import (
	"context"
	"net/netip"
	"path/filepath"
	"testing"

	"github.com/mycoria/mycoria/m"
)

// C18: saving and reloading must preserve every domain mapping and every
// stored router field exactly. Strings that are not valid UTF-8 are silently
// rewritten by encoding/json (every bad byte becomes U+FFFD), so fields change
// and distinct mapping keys collapse into one: a mapping is lost.
func TestC18InvalidUTF8DoesNotRoundTrip(t *testing.T) {
	fn := filepath.Join(t.TempDir(), "state.json")
	s, err := NewJSONFileStorage(fn)
	if err != nil {
		t.Fatal(err)
	}

	// One genuine router (passes VerifyAddress on reload).
	addr, _, err := m.GenerateRoutableAddress(
		context.Background(), []netip.Prefix{m.RoutingAddressPrefix}, nil, 0,
	)
	if err != nil {
		t.Fatal(err)
	}
	pub := addr.PublicAddress
	universe := "uni\xffverse"
	if err := s.SaveRouter(&StoredRouter{Address: &pub, Universe: universe}); err != nil {
		t.Fatal(err)
	}

	// Two distinct domain mappings.
	d1, d2 := "host\xfe.myco", "host\xff.myco"
	r1 := netip.MustParseAddr("fd00::1")
	r2 := netip.MustParseAddr("fd00::2")
	if err := s.SaveMapping(d1, r1); err != nil {
		t.Fatal(err)
	}
	if err := s.SaveMapping(d2, r2); err != nil {
		t.Fatal(err)
	}
	if s.Size() != 3 {
		t.Fatalf("setup: size %d", s.Size())
	}

	if err := s.Stop(); err != nil {
		t.Fatal(err)
	}
	re, err := NewJSONFileStorage(fn)
	if err != nil {
		t.Fatalf("reload: %v", err)
	}

	if got := len(re.mappings); got != 2 {
		t.Errorf("saved 2 domain mappings, reloaded %d: %q", got, re.mappings)
	}
	for d, want := range map[string]netip.Addr{d1: r1, d2: r2} {
		got, err := re.GetMapping(d)
		if err != nil || got != want {
			t.Errorf("mapping %q: want %s, got %s (err=%v)", d, want, got, err)
		}
	}
	rr, err := re.GetRouter(pub.IP)
	if err != nil {
		t.Fatalf("router lost: %v", err)
	}
	if rr.Universe != universe {
		t.Errorf("universe changed by save/reload: saved %q, reloaded %q", universe, rr.Universe)
	}
}
