package router

import (
	"bytes"
	"context"
	"crypto/ecdh"
	"crypto/rand"
	"net"
	"net/netip"
	"testing"
	"time"

	"github.com/fxamacker/cbor/v2"

	"github.com/mycoria/mycoria/api/httpapi"
	"github.com/mycoria/mycoria/api/netstack"
	"github.com/mycoria/mycoria/config"
	"github.com/mycoria/mycoria/frame"
	"github.com/mycoria/mycoria/m"
	"github.com/mycoria/mycoria/mgr"
	"github.com/mycoria/mycoria/peering"
	"github.com/mycoria/mycoria/state"
	"github.com/mycoria/mycoria/switchr"
	"github.com/mycoria/mycoria/tun"
)

// ---- minimal harness (hunt C07, finding 3) ----

type c07f3Instance struct {
	cfg *config.Config
	id  *m.Address
	fb  *frame.Builder
	st  *state.State
}

func (i *c07f3Instance) Version() string              { return "v0.0.0-test" }
func (i *c07f3Instance) Config() *config.Config       { return i.cfg }
func (i *c07f3Instance) Identity() *m.Address         { return i.id }
func (i *c07f3Instance) FrameBuilder() *frame.Builder { return i.fb }
func (i *c07f3Instance) State() *state.State          { return i.st }
func (i *c07f3Instance) NetStack() *netstack.NetStack { return nil }
func (i *c07f3Instance) API() *httpapi.API            { return nil }
func (i *c07f3Instance) TunDevice() *tun.Device       { return nil }
func (i *c07f3Instance) Switch() *switchr.Switch      { return nil }
func (i *c07f3Instance) Peering() *peering.Peering    { return nil }

type c07f3Link struct {
	peer  netip.Addr
	label m.SwitchLabel
}

func (l *c07f3Link) String() string                              { return "testlink " + l.peer.String() }
func (l *c07f3Link) Peer() netip.Addr                            { return l.peer }
func (l *c07f3Link) SwitchLabel() m.SwitchLabel                  { return l.label }
func (l *c07f3Link) PeeringURL() *m.PeeringURL                   { return nil }
func (l *c07f3Link) Outgoing() bool                              { return false }
func (l *c07f3Link) SendPriority(f frame.Frame) error            { return nil }
func (l *c07f3Link) Send(f frame.Frame) error                    { return nil }
func (l *c07f3Link) LocalAddr() net.Addr                         { return nil }
func (l *c07f3Link) RemoteAddr() net.Addr                        { return nil }
func (l *c07f3Link) Latency() uint16                             { return 7 }
func (l *c07f3Link) FlowControlIndicator() frame.FlowControlFlag { return 0 }
func (l *c07f3Link) IsClosing() bool                             { return false }

func c07f3Addr(t *testing.T) *m.Address {
	t.Helper()
	a, _, err := m.GenerateRoutableAddress(context.Background(), []netip.Prefix{m.RoutingAddressPrefix}, nil, 0)
	if err != nil {
		t.Fatal(err)
	}
	return a
}

func c07f3Router(t *testing.T) *Router {
	t.Helper()
	cfg := &config.Config{}
	cfg.Router.Stub = true // do not forward (no peering/switch in this harness)
	cfg.Router.Universe = "test"
	inst := &c07f3Instance{cfg: cfg, id: c07f3Addr(t), fb: frame.NewFrameBuilder()}
	inst.st = state.New(inst, nil)
	r, err := New(inst, Config{})
	if err != nil {
		t.Fatal(err)
	}
	return r
}

// c07f3Ping builds a raw-signed broadcast ping exactly as sendPingMsg does for
// an unknown destination (m.RouterAddress).
func c07f3Ping(t *testing.T, fb *frame.Builder, from *m.Address, msgType frame.MessageType, pingType string, body any, seq time.Time, dst netip.Addr) frame.Frame {
	t.Helper()
	data, err := cbor.Marshal(body)
	if err != nil {
		t.Fatal(err)
	}
	hdr := PingHeader{
		PingID:    newPingID(),
		PingType:  pingType,
		AddrHash:  from.Hash,
		KeyType:   from.Type,
		PublicKey: from.PublicKey,
	}
	hdrData, err := cbor.Marshal(&hdr)
	if err != nil {
		t.Fatal(err)
	}
	frameData := make([]byte, 2+len(hdrData)+len(data))
	frameData[0] = 1
	frameData[1] = uint8(len(hdrData))
	copy(frameData[2:], hdrData)
	copy(frameData[2+len(hdrData):], data)

	f, err := fb.NewFrameV1(from.IP, dst, msgType, nil, frameData, nil)
	if err != nil {
		t.Fatal(err)
	}
	f.SetTTL(0)
	f.SetSequenceTime(seq)
	if err := f.SignRaw(from.PrivateKey); err != nil {
		t.Fatal(err)
	}
	f.SetTTL(32)
	return f
}

func c07f3Deliver(t *testing.T, r *Router, f frame.Frame, from netip.Addr) error {
	t.Helper()
	c := f.Clone() // byte-identical copy, as an on-wire replay would be
	c.SetRecvLink(&c07f3Link{peer: from, label: 5})
	var herr error
	_ = mgr.New("test").Do("deliver", func(w *mgr.WorkerCtx) error {
		herr = r.handlePing(w, c)
		return nil
	})
	return herr
}

// TestC07ReplayedHopPingHelloRekeysSession:
// parsePingMsg tolerates state.ErrImmediateDuplicateFrame for every ping that
// travels in a RouterHopPing / RouterHopPingDeprecated frame - the decision is
// made on the frame message type, not on the ping type "announce".
// So the by-design tolerance for duplicate announcements also lets byte-exact
// replays of hello (and error / disconnect / pong) pings through when they were
// framed as hop pings (router.handleFrame hands every hop ping to handlePing).
//
// History: X sends one genuine hello request in a RouterHopPing frame.
// A third party replays the identical bytes. Each replay runs
// HelloPingHandler.handlePingHelloRequest again, InitKeyServer draws a fresh
// ECDH key and the session keys with X are replaced by keys X cannot know.
func TestC07ReplayedHopPingHelloRekeysSession(t *testing.T) {
	r := c07f3Router(t)
	x := c07f3Addr(t)
	fb := frame.NewFrameBuilder()

	kx, err := ecdh.X25519().GenerateKey(rand.Reader)
	if err != nil {
		t.Fatal(err)
	}
	seq := time.Now().Round(state.DefaultPrecision)
	hello := c07f3Ping(t, fb, x, frame.RouterHopPing, helloPingType, &HelloPingRequest{
		KeyExchange:     kx.PublicKey().Bytes(),
		KeyExchangeType: "ECDH-X25519/BLAKE3",
		MTU:             1400,
	}, seq, r.instance.Identity().IP)

	// Genuine delivery. (The response cannot be routed in this harness - the
	// routing table is empty - but the key exchange is done before that.)
	_ = c07f3Deliver(t, r, hello, x.IP)
	session := r.instance.State().GetSession(x.IP)
	if session == nil || !session.Encryption().IsSetUp() {
		t.Fatalf("setup: genuine hello did not set up encryption")
	}
	helper := &state.EncryptionSessionTestHelper{EncryptionSession: session.Encryption()}
	inBefore := bytes.Clone(helper.InKey())
	outBefore := bytes.Clone(helper.OutKey())

	// Replay of the byte-identical frame.
	rerr := c07f3Deliver(t, r, hello, x.IP)
	session = r.instance.State().GetSession(x.IP)
	helper = &state.EncryptionSessionTestHelper{EncryptionSession: session.Encryption()}
	if !bytes.Equal(inBefore, helper.InKey()) || !bytes.Equal(outBefore, helper.OutKey()) {
		t.Fatalf("C07 violated: replayed hello ping (hop ping frame, handlePing err=%v) replaced the session keys with X", rerr)
	}
}
