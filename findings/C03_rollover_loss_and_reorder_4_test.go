package frame

import (
	"context"
	"testing"

	"github.com/mycoria/mycoria/config"
	"github.com/mycoria/mycoria/m"
	"github.com/mycoria/mycoria/state"
)

// c03f4NewSessions returns a fresh, keyed pair of sessions (s1 = sender side,
// s2 = receiver side), independent from the shared test sessions.
func c03f4NewSessions(t *testing.T) (s1, s2 *state.Session) {
	t.Helper()
	ctx := context.Background()
	a1, _, err := m.GeneratePrivacyAddress(ctx)
	if err != nil {
		t.Fatal(err)
	}
	a2, _, err := m.GeneratePrivacyAddress(ctx)
	if err != nil {
		t.Fatal(err)
	}
	st := state.New(&instanceStub{IdentityStub: a1, ConfigStub: &config.Config{}}, nil)
	if err := st.AddRouter(&a1.PublicAddress); err != nil {
		t.Fatal(err)
	}
	if err := st.AddRouter(&a2.PublicAddress); err != nil {
		t.Fatal(err)
	}
	s1, s2 = st.GetSession(a1.IP), st.GetSession(a2.IP)
	k1, t1, err := s1.Encryption().InitKeyClientStart()
	if err != nil {
		t.Fatal(err)
	}
	k2, t2, err := s2.Encryption().InitKeyServer(k1, t1)
	if err != nil {
		t.Fatal(err)
	}
	if err := s1.Encryption().InitKeyClientComplete(k2, t2); err != nil {
		t.Fatal(err)
	}
	return s1, s2
}

func c03f4Sealed(t *testing.T, b *Builder, s1, s2 *state.Session, mt MessageType) *FrameV1 {
	t.Helper()
	f, err := b.NewFrameV1(s1.Address().IP, s2.Address().IP, mt, nil, testData, nil)
	if err != nil {
		t.Fatal(err)
	}
	if err := f.Seal(s1); err != nil {
		t.Fatalf("seal: %s", err)
	}
	return f
}

// Reordering across the key rollover: the first frame with the new key overtakes
// the last frame with the old key. The late frame is only one sender-step behind the
// newest accepted frame of its class and no duplicate, but is rejected, because
// the old incoming key is dropped the moment the rollover executes.
func TestC03ReglFrameBehindRolloverRejected(t *testing.T) {
	b := NewFrameBuilder()
	s1, s2 := c03f4NewSessions(t)
	e1h := state.EncryptionSessionTestHelper{EncryptionSession: s1.Encryption()}

	e1h.ReglSetOut(0xFFFF_FFFF - 2)
	f0 := c03f4Sealed(t, b, s1, s2, NetworkTraffic) // seq 0xFFFFFFFE, old key
	f1 := c03f4Sealed(t, b, s1, s2, NetworkTraffic) // seq 0xFFFFFFFF, old key
	f2 := c03f4Sealed(t, b, s1, s2, NetworkTraffic) // seq 1, new key
	if f1.SequenceNum() != 0xFFFF_FFFF || f2.SequenceNum() != 1 {
		t.Fatalf("setup: seqs %x %x", f1.SequenceNum(), f2.SequenceNum())
	}

	// Delivery order: f0, f2, f1 (f1 and f2 swapped).
	if err := f0.Unseal(s2); err != nil {
		t.Fatal(err)
	}
	if err := f2.Unseal(s2); err != nil {
		t.Fatal(err)
	}
	if err := f1.Unseal(s2); err != nil {
		t.Fatalf("C03 violated: regular frame seq 0xFFFFFFFF, directly behind the newest accepted frame and no duplicate, rejected: %s", err)
	}
}

// Priority class: the sender restarts its priority sequence with the new key as
// soon as it rolled the key over. A priority frame that overtakes the regular
// frame that triggers the rollover at the receiver (or whose regular frame is
// lost) is decrypted with the old key and rejected, although it is new in its
// class and no duplicate.
func TestC03PrioFrameAheadOfRolloverRejected(t *testing.T) {
	b := NewFrameBuilder()
	s1, s2 := c03f4NewSessions(t)
	e1h := state.EncryptionSessionTestHelper{EncryptionSession: s1.Encryption()}

	e1h.ReglSetOut(0xFFFF_FFFF - 1)
	f0 := c03f4Sealed(t, b, s1, s2, NetworkTraffic) // seq 0xFFFFFFFF, old key
	p0 := c03f4Sealed(t, b, s1, s2, SessionCtrl)    // prio seq 1, old key
	f1 := c03f4Sealed(t, b, s1, s2, NetworkTraffic) // seq 1, new key (sender rolls over)
	p1 := c03f4Sealed(t, b, s1, s2, SessionCtrl)    // prio seq 1, new key
	if f1.SequenceNum() != 1 || p1.SequenceNum() != 1 {
		t.Fatalf("setup: seqs %x %x", f1.SequenceNum(), p1.SequenceNum())
	}

	if err := f0.Unseal(s2); err != nil {
		t.Fatal(err)
	}
	if err := p0.Unseal(s2); err != nil {
		t.Fatal(err)
	}
	// p1 overtakes f1.
	if err := p1.Unseal(s2); err != nil {
		t.Fatalf("C03 violated: new, non-duplicate priority frame rejected: %s", err)
	}
	if err := f1.Unseal(s2); err != nil {
		t.Fatal(err)
	}
}
