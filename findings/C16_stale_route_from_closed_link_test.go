package router

import (
	"context"
	"net/netip"
	"testing"
	"time"

	"github.com/mycoria/mycoria/api/httpapi"
	"github.com/mycoria/mycoria/api/netstack"
	"github.com/mycoria/mycoria/config"
	"github.com/mycoria/mycoria/frame"
	"github.com/mycoria/mycoria/m"
	"github.com/mycoria/mycoria/mgr"
	"github.com/mycoria/mycoria/peering"
	"github.com/mycoria/mycoria/state"
	"github.com/mycoria/mycoria/switchr"
	"github.com/mycoria/mycoria/tun"
)

// c16Inst wires real peering, switch and router modules together, the same
// way instance.go does (router <- switch <- peering).
type c16Inst struct {
	cfg *config.Config
	id  *m.Address
	st  *state.State
	fb  *frame.Builder
	p   *peering.Peering
	sw  *switchr.Switch
	r   *Router
}

func (i *c16Inst) Version() string               { return "v0.0.0" }
func (i *c16Inst) Config() *config.Config        { return i.cfg }
func (i *c16Inst) Identity() *m.Address          { return i.id }
func (i *c16Inst) FrameBuilder() *frame.Builder  { return i.fb }
func (i *c16Inst) State() *state.State           { return i.st }
func (i *c16Inst) NetStack() *netstack.NetStack  { return nil }
func (i *c16Inst) API() *httpapi.API             { return nil }
func (i *c16Inst) TunDevice() *tun.Device        { return nil }
func (i *c16Inst) Switch() *switchr.Switch       { return i.sw }
func (i *c16Inst) Peering() *peering.Peering     { return i.p }
func (i *c16Inst) RoutingTable() *m.RoutingTable { return i.r.Table() }

func newC16Inst(t *testing.T) *c16Inst {
	t.Helper()

	id, _, err := m.GenerateRoutableAddress(context.Background(), []netip.Prefix{m.RoamingPrefix}, nil, 0)
	if err != nil {
		t.Fatal(err)
	}
	i := &c16Inst{
		cfg: config.MakeTestConfig(config.Store{
			Router: config.Router{Universe: "test", UniverseSecret: "password"},
			System: config.System{DisableTun: true},
		}),
		id: id,
		fb: frame.NewFrameBuilder(),
	}
	i.fb.SetFrameMargins(peering.FrameOffset, peering.FrameOverhead)
	i.st = state.New(i, nil)
	i.r, err = New(i, Config{})
	if err != nil {
		t.Fatal(err)
	}
	i.sw = switchr.New(i, i.r.Input())
	i.p = peering.New(i, i.sw.Input())
	if err := i.sw.Start(); err != nil {
		t.Fatal(err)
	}
	return i
}

func c16WaitFor(t *testing.T, what string, cond func() bool) {
	t.Helper()
	deadline := time.Now().Add(5 * time.Second)
	for time.Now().Before(deadline) {
		if cond() {
			return
		}
		time.Sleep(2 * time.Millisecond)
	}
	t.Fatalf("timed out waiting for: %s", what)
}

// TestC16StaleRouteFromFrameOfClosedLink:
//  1. routers A and P establish a (real) link,
//  2. P announces itself to A (the regular announce ping every router sends to its peers),
//  3. the frame is read from the link and handed to A's router, which has not processed it yet,
//  4. P closes the link; A's link reader sees the close, LinkBase.Close -> RemoveLink ->
//     RemoveNextHop(P): registry and routing table of A are clean,
//  5. A's router worker now processes the frame it already holds
//     (AnnouncePingHandler.Handle) and adds a RouteSourcePeer route with
//     NextHop P - without looking at whether the receiving link is still alive.
//
// Result at the quiescent point: A has no link to P, but its routing table holds
// a direct-peer route to P (peer routes never expire and Clean() never removes them).
func TestC16StaleRouteFromFrameOfClosedLink(t *testing.T) {
	a := newC16Inst(t)
	p := newC16Inst(t)

	// P dials A.
	lstA, dialP := peering.NewConnectedPipeStacks()
	a.p.AddProtocol("pipe", lstA)
	p.p.AddProtocol("pipe", dialP)
	if _, err := a.p.StartListener(&m.PeeringURL{Protocol: "pipe"}, netip.IPv4Unspecified()); err != nil {
		t.Fatal(err)
	}
	if _, err := p.p.PeerWith(&m.PeeringURL{Protocol: "pipe"}, netip.IPv4Unspecified()); err != nil {
		t.Fatal(err)
	}
	c16WaitFor(t, "link on A", func() bool { return a.p.GetLink(p.id.IP) != nil })

	// Sanity: live link <=> peer route.
	if rte, isDst := a.r.Table().LookupNearest(p.id.IP); rte == nil || !isDst || rte.NextHop != p.id.IP {
		t.Fatalf("setup: expected peer route for live link, got %+v", rte)
	}

	// A's router worker takes the next frame from its input (this is what
	// Router.frameHandler does) ...
	got := make(chan frame.Frame, 1)
	go func() { got <- <-a.r.Input() }()
	time.Sleep(20 * time.Millisecond)

	// ... P announces itself to its peer A ...
	if err := p.r.AnnouncePing.Send(a.id.IP); err != nil {
		t.Fatal(err)
	}
	var f frame.Frame
	select {
	case f = <-got:
	case <-time.After(5 * time.Second):
		t.Fatal("announce frame did not arrive at A's router")
	}

	// ... and closes the link before A's router worker gets to handle the frame.
	p.p.CloseLink(a.id.IP)
	c16WaitFor(t, "link removed on A", func() bool { return a.p.GetLink(p.id.IP) == nil })
	if rte, isDst := a.r.Table().LookupNearest(p.id.IP); rte != nil && isDst {
		t.Fatalf("setup: route to P should be gone after the link closed, got %+v", rte)
	}

	// A's router worker handles the frame it holds.
	err := mgr.New("test").Do("router", func(w *mgr.WorkerCtx) error {
		return a.r.handleFrame(w, f)
	})
	if err != nil {
		t.Fatalf("handle frame: %v", err)
	}

	// Quiescent point: no link to P on A ...
	if l := a.p.GetLink(p.id.IP); l != nil {
		t.Fatalf("unexpected: A has a link to P again")
	}
	if a.p.LinkCnt() != 0 {
		t.Fatalf("unexpected: A has %d links", a.p.LinkCnt())
	}
	// ... so there must be no route via P.
	if rte, isDst := a.r.Table().LookupNearest(p.id.IP); rte != nil && isDst {
		t.Fatalf("A has no live link to %s (LinkCnt=0), but its routing table holds a %s route "+
			"to it with next hop %s (expires=%v):\n%s",
			p.id.IP, rte.Source, rte.NextHop, rte.Expires, a.r.Table().Format())
	}
}

func TestC16StaleRouteNatural(t *testing.T) {
	a := newC16Inst(t)
	p := newC16Inst(t)
	for k := 0; k < 4; k++ {
		a.r.mgr.Go("router", a.r.frameHandler)
	}
	lstA, dialP := peering.NewConnectedPipeStacks()
	a.p.AddProtocol("pipe", lstA)
	p.p.AddProtocol("pipe", dialP)
	if _, err := a.p.StartListener(&m.PeeringURL{Protocol: "pipe"}, netip.IPv4Unspecified()); err != nil {
		t.Fatal(err)
	}
	stale := 0
	const rounds = 300
	for i := 0; i < rounds; i++ {
		if _, err := p.p.PeerWith(&m.PeeringURL{Protocol: "pipe"}, netip.IPv4Unspecified()); err != nil {
			t.Logf("round %d: connect: %v", i, err)
			time.Sleep(20 * time.Millisecond)
			continue
		}
		c16WaitFor(t, "link on A", func() bool { return a.p.GetLink(p.id.IP) != nil })
		if err := p.r.AnnouncePing.Send(a.id.IP); err != nil {
			t.Fatal(err)
		}
		time.Sleep(time.Duration(i%20) * 40 * time.Microsecond)
		p.p.CloseLink(a.id.IP)
		c16WaitFor(t, "link removed on A", func() bool { return a.p.GetLink(p.id.IP) == nil })
		time.Sleep(15 * time.Millisecond)
		if rte, isDst := a.r.Table().LookupNearest(p.id.IP); rte != nil && isDst {
			stale++
			a.r.Table().RemoveNextHop(p.id.IP)
		}
	}
	if stale > 0 {
		t.Fatalf("%d of %d rounds ended with a stale peer route and no link", stale, rounds)
	}
}
