#!/bin/bash
# usage: run_overlay.sh <pkgdir relative to /repo> <harness file> <test regex> <outdir> [env...]
# injects the harness into the package with go test -overlay (nothing is written to /repo)
set -u
pkg="$1"; harness="$2"; re="$3"; out="$4"; shift 4
mkdir -p "$out"
ov="$out/overlay.json"
printf '{"Replace": {"/repo/%s/zz_verif_bounded_test.go": "%s"}}' "$pkg" "$harness" > "$ov"
cd "/repo/$pkg" && env "$@" go test -overlay "$ov" -vet=off -count=1 -timeout 1500s -run "$re" -v . > "$out/test.log" 2>&1
echo $?
