package config

// Bounded stand-in for C06: the policy key is injective over the whole finite domain
// (256 protocols x 65536 ports), shown by a left inverse of the real makePolicyKey. Complete enumeration.

import (
	"fmt"
	"strconv"
	"strings"
	"testing"
)

func TestVerifBoundedC06(t *testing.T) {
	n := 0
	for p := 0; p < 256; p++ {
		for d := 0; d < 65536; d++ {
			k := makePolicyKey(uint8(p), uint16(d))
			a, b, ok := strings.Cut(k, "-")
			pa, e1 := strconv.Atoi(a)
			pb, e2 := strconv.Atoi(b)
			if !ok || e1 != nil || e2 != nil || pa != p || pb != d {
				fmt.Printf("VERIF-BOUNDED: {\"cases\":%d,\"fail\":\"policy key %q of (%d,%d) does not decode back\"}\n", n, k, p, d)
				t.Fail()
				return
			}
			n++
		}
	}
	fmt.Printf("VERIF-BOUNDED: {\"cases\":%d}\n", n)
}
