#!/bin/bash
# Bounded stand-in for C18 (round trip): saving and reloading generated states preserves every router and mapping.
tier="$1"; result="$2"
cd "$(dirname "$0")/.."
. ./env.sh
out=$(cd "$(dirname "$result")" && pwd)
states=40
[ "$tier" = thorough ] && states=400
rc=$(bounded/run_overlay.sh storage /verif/bounded/C18_harness_test.go '^TestVerifBoundedC18$' "$out" VERIF_C18_STATES=$states VERIF_SEED=${VERIF_SEED:-0})
line=$(grep -m1 '^VERIF-BOUNDED:' "$out/test.log" | sed 's/^VERIF-BOUNDED: //')
[ -z "$line" ] && line='{"cases":0,"fail":"harness did not run"}'
jq -n --argjson r "$line" '{bounded: [{name: "save (Stop) and reload (NewJSONFileStorage) of generated states with 0..200 routers and 0..200 mappings, unicode / mixed-case / empty / long strings: every router and mapping preserved", cases: $r.cases, exhaustive: false, counted_as_proved: false, failure: (if $r.fail == "" then null else $r.fail end)}]}' > "$result"
if [ "$rc" != 0 ] || [ -n "$(echo "$line" | jq -r '.fail // empty')" ]; then
  mkdir -p out/C18.bounded
  rp=/verif/out/C18.bounded/replay.json
  jq -n --argjson r "$line" --arg log "$(tail -20 "$out/test.log")" '{property:"C18", obligation:"bounded/C18", what: $r.fail, verdict:"confirmed", go_test_output:$log, replay_cmd:"/verif/bounded/C18.sh quick /tmp/c18.json"}' > $rp
  echo "FAILED-OBLIGATION: bounded/C18 -- $(echo "$line" | jq -r '.fail')"
  echo "VIOLATION property=C18 replay=$rp"
  exit 1
fi
exit 0
