package m

// Bounded stand-in for C12 (functional correctness of rotation and reversal, sufficiency and
// minimality of the block size). Labelled "bounded" in the evidence; never counted as proved.
// Injected into package m with go test -overlay; the real functions are exercised.

import (
	"encoding/json"
	"fmt"
	"math/rand"
	"net/netip"
	"os"
	"strconv"
	"testing"
)

var verifClasses = [][]SwitchLabel{{1, 127}, {128, 16383}, {16384, 65535}}

type verifC12Result struct {
	Cases      int    `json:"cases"`
	MaxHops    int    `json:"max_hops_exhaustive"`
	RandomHops int    `json:"random_cases"`
	Fail       string `json:"fail,omitempty"`
	FailPath   string `json:"fail_path,omitempty"`
}

func verifBuildPath(fw, ret []SwitchLabel) *SwitchPath {
	n := len(fw)
	sp := &SwitchPath{Hops: make([]SwitchHop, n)}
	for i := 0; i < n; i++ {
		sp.Hops[i] = SwitchHop{Router: netip.MustParseAddr("fd00::" + strconv.Itoa(i+1)), ForwardLabel: fw[i], ReturnLabel: ret[i]}
	}
	sp.Hops[0].ReturnLabel = 0
	sp.Hops[n-1].ForwardLabel = 0
	return sp
}

// verifRotate performs one rotation on a block embedded in guard bytes.
func verifRotate(buf []byte, size int, rl SwitchLabel) (SwitchLabel, error) {
	b := buf[8 : 8+size : len(buf)] // capacity reaches into the guard: writes past len would land there
	next, err := NextRotateSwitchBlock(b, rl)
	if err != nil {
		return 0, err
	}
	for i := 0; i < 8; i++ {
		if buf[i] != 0xA5 || buf[8+size+i] != 0xA5 {
			return 0, fmt.Errorf("byte outside the block changed")
		}
	}
	return next, nil
}

func verifUsed(b []byte) int {
	for i := len(b) - 1; i >= 0; i-- {
		if b[i] != 0 {
			return i + 1
		}
	}
	return 0
}

// verifRoundTrip runs the forward and return traversal on a block of the given size built by hand
// from the labels; returns the maximum number of bytes in use at any stage, or an error text.
func verifRoundTrip(sp *SwitchPath, size int, wantRet, wantFw []byte) (int, string) {
	n := len(sp.Hops)
	buf := make([]byte, size+16)
	for i := range buf {
		buf[i] = 0xA5
	}
	block := buf[8 : 8+size]
	clear(block)
	idx := 0
	for i := 0; i < n-1; i++ {
		var tmp [4]byte
		k := verifPutUvarint(tmp[:], uint64(sp.Hops[i].ForwardLabel))
		if idx+k > size {
			return 0, "forward labels do not fit"
		}
		copy(block[idx:], tmp[:k])
		idx += k
	}
	orig := append([]byte(nil), block...)
	used := verifUsed(block)
	for i := 0; i < n; i++ {
		next, err := verifRotate(buf, size, sp.Hops[i].ReturnLabel)
		if err != nil {
			return 0, fmt.Sprintf("forward traversal at hop %d: %v", i, err)
		}
		if next != sp.Hops[i].ForwardLabel {
			return 0, fmt.Sprintf("forward traversal: hop %d got label %d, want %d", i, next, sp.Hops[i].ForwardLabel)
		}
		if u := verifUsed(block); u > used {
			used = u
		}
	}
	TransformToReturnBlock(block)
	if wantRet != nil && string(block) != string(wantRet) {
		return 0, fmt.Sprintf("reversed block %v differs from the return block %v", block, wantRet)
	}
	for i := n - 1; i >= 0; i-- {
		next, err := verifRotate(buf, size, sp.Hops[i].ForwardLabel)
		if err != nil {
			return 0, fmt.Sprintf("return traversal at hop %d: %v", i, err)
		}
		if next != sp.Hops[i].ReturnLabel {
			return 0, fmt.Sprintf("return traversal: hop %d got label %d, want %d", i, next, sp.Hops[i].ReturnLabel)
		}
		if u := verifUsed(block); u > used {
			used = u
		}
	}
	TransformToReturnBlock(block)
	if string(block) != string(orig) {
		return 0, fmt.Sprintf("block reversed back %v differs from the forward block %v", block, orig)
	}
	if wantFw != nil && string(orig) != string(wantFw) {
		return 0, fmt.Sprintf("forward block %v differs from the labels in order %v", wantFw, orig)
	}
	return used, ""
}

func verifPutUvarint(buf []byte, x uint64) int {
	i := 0
	for x >= 0x80 {
		buf[i] = byte(x) | 0x80
		x >>= 7
		i++
	}
	buf[i] = byte(x)
	return i + 1
}

func verifCheckPath(fw, ret []SwitchLabel) string {
	sp := verifBuildPath(fw, ret)
	// independent oracle for the needed size: run the whole round trip in a large block
	need, msg := verifRoundTrip(sp, 700, nil, nil)
	if msg != "" {
		return "reference run in a 700 byte block: " + msg
	}
	var panicked any
	var berr error
	func() {
		defer func() { panicked = recover() }()
		berr = sp.BuildBlocks()
	}()
	if panicked != nil {
		return fmt.Sprintf("BuildBlocks panicked: %v", panicked)
	}
	if berr != nil {
		if need <= 255 {
			return fmt.Sprintf("valid path refused: %v (needs %d bytes)", berr, need)
		}
		return ""
	}
	if need > 255 {
		return fmt.Sprintf("path needing %d bytes was accepted", need)
	}
	if len(sp.ForwardBlock) != len(sp.ReturnBlock) {
		return "forward and return block differ in size"
	}
	size := len(sp.ForwardBlock)
	if size < need {
		return fmt.Sprintf("block size %d is not sufficient (%d bytes needed)", size, need)
	}
	if size > need {
		return fmt.Sprintf("block size %d is not minimal (%d bytes suffice)", size, need)
	}
	if _, msg := verifRoundTrip(sp, size, sp.ReturnBlock, sp.ForwardBlock); msg != "" {
		return msg
	}
	return ""
}

func TestVerifBoundedC12(t *testing.T) {
	maxHops, _ := strconv.Atoi(os.Getenv("VERIF_C12_MAXHOPS"))
	if maxHops == 0 {
		maxHops = 4
	}
	seed, _ := strconv.ParseInt(os.Getenv("VERIF_SEED"), 10, 64)
	nRandom, _ := strconv.Atoi(os.Getenv("VERIF_C12_RANDOM"))
	res := verifC12Result{MaxHops: maxHops}
	defer func() {
		b, _ := json.Marshal(res)
		fmt.Println("VERIF-BOUNDED:", string(b))
	}()
	reps := []SwitchLabel{1, 127, 128, 16383, 16384, 65535}
	for n := 2; n <= maxHops; n++ {
		// every hop picks a forward and a return label among the class boundary representatives (n<=3) or one per class (n>3)
		choices := reps
		if n > 3 {
			choices = []SwitchLabel{5, 300, 40000}
		}
		idx := make([]int, 2*n)
		for {
			fw := make([]SwitchLabel, n)
			ret := make([]SwitchLabel, n)
			for i := 0; i < n; i++ {
				fw[i] = choices[idx[2*i]]
				ret[i] = choices[idx[2*i+1]]
			}
			res.Cases++
			if msg := verifCheckPath(fw, ret); msg != "" {
				res.Fail = msg
				res.FailPath = fmt.Sprint(fw, ret)
				t.Errorf("VERIF-BOUNDED-FAIL: %s for forward %v return %v", msg, fw, ret)
				return
			}
			k := 0
			for k < len(idx) {
				idx[k]++
				if idx[k] < len(choices) {
					break
				}
				idx[k] = 0
				k++
			}
			if k == len(idx) {
				break
			}
		}
	}
	// seeded random long paths (up to 101 hops) including ones that exceed 255 bytes
	rng := rand.New(rand.NewSource(seed + 12))
	for c := 0; c < nRandom; c++ {
		n := 2 + rng.Intn(100)
		fw := make([]SwitchLabel, n)
		ret := make([]SwitchLabel, n)
		bias := rng.Intn(3)
		for i := 0; i < n; i++ {
			cl := verifClasses[(bias+rng.Intn(2))%3]
			fw[i] = cl[0] + SwitchLabel(rng.Intn(int(cl[1]-cl[0])+1))
			cl = verifClasses[(bias+rng.Intn(2))%3]
			ret[i] = cl[0] + SwitchLabel(rng.Intn(int(cl[1]-cl[0])+1))
		}
		res.Cases++
		res.RandomHops++
		if msg := verifCheckPath(fw, ret); msg != "" {
			res.Fail = msg
			res.FailPath = fmt.Sprint(fw, ret)
			t.Errorf("VERIF-BOUNDED-FAIL: %s for forward %v return %v", msg, fw, ret)
			return
		}
	}
	// the exact 255-byte boundary: 86 hops with 85 three-byte labels must be accepted, 87 refused
	for _, n := range []int{86, 87} {
		fw := make([]SwitchLabel, n)
		ret := make([]SwitchLabel, n)
		for i := range fw {
			fw[i], ret[i] = 40000, 40000
		}
		res.Cases++
		if msg := verifCheckPath(fw, ret); msg != "" {
			res.Fail = msg
			res.FailPath = fmt.Sprintf("%d hops of 3-byte labels", n)
			t.Errorf("VERIF-BOUNDED-FAIL: %s for %d hops of 3-byte labels", msg, n)
			return
		}
	}
}
