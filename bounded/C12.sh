#!/bin/bash
# Bounded stand-in for C12: rotation/reversal functional correctness, size sufficiency and minimality.
tier="$1"; result="$2"
cd "$(dirname "$0")/.."
. ./env.sh
out=$(cd "$(dirname "$result")" && pwd)
maxhops=4; random=300
[ "$tier" = thorough ] && { maxhops=6; random=20000; }
rc=$(bounded/run_overlay.sh m /verif/bounded/C12_harness_test.go '^TestVerifBoundedC12$' "$out" VERIF_C12_MAXHOPS=$maxhops VERIF_C12_RANDOM=$random VERIF_SEED=${VERIF_SEED:-0})
line=$(grep -m1 '^VERIF-BOUNDED:' "$out/test.log" | sed 's/^VERIF-BOUNDED: //')
[ -z "$line" ] && line='{"cases":0,"fail":"harness did not run"}'
jq -n --argjson r "$line" --arg tier "$tier" '{bounded: [{name: "rotation/reversal/size of switch paths on the real m functions", exhaustive_up_to: ("all label-class combinations for 2.." + ($r.max_hops_exhaustive|tostring) + " hops (boundary labels 1,127,128,16383,16384,65535 for <=3 hops)"), random_cases: $r.random_cases, cases: $r.cases, counted_as_proved: false, failure: ($r.fail // null)}]}' > "$result"
if [ "$rc" != 0 ] || [ -n "$(echo "$line" | jq -r '.fail // empty')" ]; then
  mkdir -p out/C12.bounded
  rp=out/C12.bounded/replay.json
  jq -n --argjson r "$line" --arg log "$(tail -30 "$out/test.log")" '{property:"C12", obligation:"bounded/C12", what: $r.fail, input: $r.fail_path, verdict:"confirmed", go_test_output:$log, replay_cmd:"/verif/bounded/C12.sh quick /tmp/c12.json"}' > /verif/$rp
  echo "FAILED-OBLIGATION: bounded/C12 -- $(echo "$line" | jq -r '.fail') for $(echo "$line" | jq -r '.fail_path')"
  echo "VIOLATION property=C12 replay=/verif/$rp"
  exit 1
fi
exit 0
