package storage

// Bounded stand-in for C18 (second sentence): saving and reloading a state preserves every stored router and every
// domain mapping. Runs on the real NewJSONFileStorage / SaveRouter / SaveMapping / Stop. Injected with go test -overlay.

import (
	"context"
	"encoding/json"
	"fmt"
	"math/rand"
	"net/netip"
	"os"
	"path/filepath"
	"strconv"
	"strings"
	"testing"
	"time"

	"github.com/mycoria/mycoria/m"
)

func verifAddr(r *rand.Rand) netip.Addr {
	var b [16]byte
	r.Read(b[:])
	b[0] = 0xfd
	return netip.AddrFrom16(b)
}

var verifStrings = []string{"", "a", "Example.myco", "ALLCAPS.MYCO", "mixed.Case.Myco", "Ünï.myco", "İstanbul.myco", "xn--bcher-kva.myco",
	"日本語.myco", " spaced .myco", "tab\t.myco", "quote\".myco", "back\\slash.myco", "nul\x00byte.myco", strings.Repeat("long", 200) + ".myco", "emoji😀.myco"}

func verifString(r *rand.Rand) string {
	if r.Intn(3) == 0 {
		n := r.Intn(40)
		b := make([]rune, n)
		for i := range b {
			b[i] = rune(32 + r.Intn(0x2000))
		}
		return string(b)
	}
	return verifStrings[r.Intn(len(verifStrings))]
}

func TestVerifBoundedC18(t *testing.T) {
	seed, _ := strconv.ParseInt(os.Getenv("VERIF_SEED"), 10, 64)
	states, _ := strconv.Atoi(os.Getenv("VERIF_C18_STATES"))
	if states == 0 {
		states = 60
	}
	r := rand.New(rand.NewSource(seed + 18))
	dir := t.TempDir()
	cases := 0
	// a pool of generated, valid router identities
	var pool []*m.Address
	for len(pool) < 200 {
		id, _, err := m.GenerateRoutableAddress(context.Background(), []netip.Prefix{m.BaseNetPrefix}, nil, 0)
		if err != nil {
			t.Fatal(err)
		}
		pool = append(pool, id)
	}
	fail := ""
	for n := 0; n < states && fail == ""; n++ {
		file := filepath.Join(dir, fmt.Sprintf("state-%d.json", n))
		s, err := NewJSONFileStorage(file)
		if err != nil {
			fail = "new storage: " + err.Error()
			break
		}
		nRouters, nMappings := r.Intn(201), r.Intn(201)
		if n == 0 {
			nRouters, nMappings = 0, 0
		}
		routers := map[netip.Addr]*StoredRouter{}
		r.Shuffle(len(pool), func(i, j int) { pool[i], pool[j] = pool[j], pool[i] })
		for i := 0; i < nRouters; i++ {
			// only records with a valid identity survive a reload (the loader verifies them)
			id := pool[i]
			used := time.Unix(int64(r.Intn(1<<31)), int64(r.Intn(1e9))).UTC()
			sr := &StoredRouter{
				Address:   &m.PublicAddress{IP: id.IP, Hash: id.Hash, Type: id.Type, PublicKey: id.PublicKey, Easing: id.Easing},
				Universe:  verifString(r),
				Offline:   r.Intn(2) == 0,
				CreatedAt: time.Unix(int64(r.Intn(1<<31)), int64(r.Intn(1e9))).UTC(),
			}
			if r.Intn(2) == 0 {
				sr.UsedAt = &used
			}
			if r.Intn(2) == 0 {
				sr.PublicInfo = &m.RouterInfo{Version: verifString(r)}
			}
			if err := s.SaveRouter(sr); err != nil {
				fail = "save router: " + err.Error()
			}
			routers[id.IP] = sr
		}
		mappings := map[string]netip.Addr{}
		for i := 0; i < nMappings; i++ {
			d := verifString(r)
			ip := verifAddr(r)
			if err := s.SaveMapping(d, ip); err != nil {
				fail = "save mapping: " + err.Error()
			}
			mappings[d] = ip
		}
		if err := s.Stop(); err != nil {
			fail = "stop: " + err.Error()
			break
		}
		s2, err := NewJSONFileStorage(file)
		if err != nil {
			fail = fmt.Sprintf("reload of a state with %d routers and %d mappings failed: %v", len(routers), len(mappings), err)
			break
		}
		if len(s2.routers) != len(routers) {
			fail = fmt.Sprintf("%d routers saved, %d reloaded", len(routers), len(s2.routers))
		}
		for ip, want := range routers {
			got := s2.routers[ip]
			if got == nil {
				fail = "router " + ip.String() + " lost"
				break
			}
			wj, _ := json.Marshal(want)
			gj, _ := json.Marshal(got)
			if string(wj) != string(gj) || got.Address == nil || got.Address.IP != ip || string(got.Address.PublicKey) != string(want.Address.PublicKey) ||
				got.Universe != want.Universe || got.Offline != want.Offline || !got.CreatedAt.Equal(want.CreatedAt) || !got.UpdatedAt.Equal(want.UpdatedAt) ||
				(got.UsedAt == nil) != (want.UsedAt == nil) || (got.PublicInfo == nil) != (want.PublicInfo == nil) {
				fail = "router " + ip.String() + " changed by save/reload"
				break
			}
		}
		if len(s2.mappings) != len(mappings) {
			fail = fmt.Sprintf("%d mappings saved, %d reloaded", len(mappings), len(s2.mappings))
		}
		for d, ip := range mappings {
			got, err := s2.GetMapping(d)
			if err != nil || got != ip {
				fail = fmt.Sprintf("mapping %q -> %s not found after reload (%v, %v)", d, ip, got, err)
				break
			}
		}
		cases++
	}
	out, _ := json.Marshal(map[string]any{"cases": cases, "fail": fail})
	fmt.Printf("VERIF-BOUNDED: %s\n", out)
	if fail != "" {
		t.Fatal(fail)
	}
}
