#!/bin/bash
# Bounded stand-in for C06: injectivity of the policy key over its complete finite domain.
tier="$1"; result="$2"
cd "$(dirname "$0")/.."
. ./env.sh
out=$(cd "$(dirname "$result")" && pwd)
rc=$(bounded/run_overlay.sh config /verif/bounded/C06_harness_test.go '^TestVerifBoundedC06$' "$out")
line=$(grep -m1 '^VERIF-BOUNDED:' "$out/test.log" | sed 's/^VERIF-BOUNDED: //')
[ -z "$line" ] && line='{"cases":0,"fail":"harness did not run"}'
jq -n --argjson r "$line" '{bounded: [{name: "makePolicyKey has a left inverse on all 256 x 65536 (protocol, port) pairs (injective)", cases: $r.cases, exhaustive: true, counted_as_proved: false, failure: ($r.fail // null)}]}' > "$result"
if [ "$rc" != 0 ] || [ -n "$(echo "$line" | jq -r '.fail // empty')" ]; then
  mkdir -p out/C06.bounded
  rp=/verif/out/C06.bounded/replay.json
  jq -n --argjson r "$line" --arg log "$(tail -20 "$out/test.log")" '{property:"C06", obligation:"bounded/C06", what: $r.fail, verdict:"confirmed", go_test_output:$log, replay_cmd:"/verif/bounded/C06.sh quick /tmp/c06.json"}' > $rp
  echo "FAILED-OBLIGATION: bounded/C06 -- $(echo "$line" | jq -r '.fail')"
  echo "VIOLATION property=C06 replay=$rp"
  exit 1
fi
exit 0
