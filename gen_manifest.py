#!/usr/bin/env python3
# Generates MANIFEST.json from props.json + manifest_meta.json (kept in sync by hand-edited metadata).
import json,subprocess
props=json.load(open('props.json'))
meta=json.load(open('manifest_meta.json'))
allp=[json.loads(l)['id'] for l in open('properties.jsonl')]
checks=[]
for pid in allp:
    if pid not in props or pid in meta.get('not_applicable',{}): continue
    m=meta['checks'].get(pid,{})
    checks.append({
      "property_id":pid,
      "quick_cmd":f"./check {pid} quick",
      "thorough_cmd":f"./check {pid} thorough",
      "evidence_file":f"/verif/evidence/{pid}.json",
      "replay_cmd_template":"./check --replay {path}",
      "engine":"govc",
      "level_claimed":{"category":"proof","text":m.get('text','contract-based deductive verification: obligations generated from the SSA of the real functions and discharged by SMT solvers'),"design_ref":m.get('design_ref','DESIGN.md section 8')},
      "level_note":m.get('note','see evidence assumptions'),
      "technique":m.get('technique','contracts on the real Go functions; weakest-precondition style VCs over go/ssa (bit-vector semantics) discharged by z3/cvc5')
    })
na=[]
for pid in allp:
    if pid in meta.get('not_applicable',{}):
        na.append({"property_id":pid,"reason":meta['not_applicable'][pid]})
    elif pid not in props:
        na.append({"property_id":pid,"reason":"not claimed in this commit: contracts for this property are still being written (work in progress)"})
commits=subprocess.run(['git','-C','/repo','log','--format=%H %s'],capture_output=True,text=True).stdout.strip().split('\n')
hooks=[c.split()[0] for c in commits if ' verif:' in c]
man={"version":1,
 "setup_cmd":"cd /verif && . ./env.sh && mkdir -p bin && cd govc && go build -o ../bin/govc .",
 "hooks":{"guard":"verif","enable":"contracts are comment-only files <pkg>/zz_verif_contracts.go behind //go:build verif; govc loads the tree with -tags verif","baseline_off_cmd":"cd /repo && go test -vet=off -count=1 ./...","source_commits":hooks,"add_only":True},
 "engines":[{"name":"govc","path":"/verif/govc","serves_properties":[c['property_id'] for c in checks],"kind_free_text":"verification-condition generator for Go (go/ssa naive form -> SMT-LIB bit-vectors/arrays), contracts in comment files, z3 4.8.12 / z3 5.1.0 / cvc5 1.0 raced per obligation, counterexample replay through go test -overlay"}],
 "checks":checks,
 "notes":meta.get('notes',''),
 "not_applicable":na}
json.dump(man,open('MANIFEST.json','w'),indent=1)
print(len(checks),'checks',len(na),'not applicable')
