# sourced by every script in /verif
export PATH=/opt/veriftools/go1.26.8/bin:$PATH
export GOFLAGS=-mod=mod GOPROXY=off GOSUMDB=off GOTOOLCHAIN=local
export CARGO_NET_OFFLINE=true PIP_NO_INDEX=1
